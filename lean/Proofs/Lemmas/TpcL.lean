import Altrios.PathTpc
import Proofs.Lemmas.Basic
import Mathlib.Algebra.Order.Field.Basic
import Mathlib.Tactic.Linarith
import Mathlib.Tactic.Ring
import Mathlib.Tactic.FieldSimp
import Mathlib.Tactic.SplitIfs
import Mathlib.Data.List.Basic
import Mathlib.Data.List.Chain
/-
  Helper definitions and lemmas for C06 (`PathTpc::extend`, model `Altrios/PathTpc.lean`).

    * generic facts about `Res`, `foldR`, `setLast`, `lastR`, `getL`;
    * the declarative vocabulary of the C06 statements: `LinkOK` (what `Link::validate` enforces),
      `Resolves`, closed forms of the four profiles (`routeLPs`, `routeGrades`, `routeCurves`,
      `routeCats`), `routeElev` (walk the links), `contig` (the contiguity checks);
    * closed forms of `pushGrades` / `pushCurves`, of one `extendGeometry` / `extendLinkPoint`
      step and of the two loops of `extend`;
    * frame lemmas (loop 1 reads/writes only `linkPoints`/`speedPoints`, loop 2 only
      `grades`/`curves`/`cats`) used by `extend_append`.
-/
set_option linter.unusedSectionVars false
set_option linter.unusedVariables false
namespace Altrios.Proofs.TpcL
open Altrios Altrios.SP Altrios.Tpc

/-! ## Generic: `Res`, `foldR`, `setLast`, `lastR`, `getL` -/

section generic
variable {σ τ β : Type}

/-- functorial action on the accepted value (errors and panics are passed through) -/
def rmap (f : σ → τ) : Res σ → Res τ
  | .ok s => .ok (f s)
  | .err e => .err e
  | .panic e => .panic e

/-- Boolean test of an outcome: accepted and the new value satisfies `p` (for `decide +kernel`) -/
def okAnd (p : σ → Bool) : Res σ → Bool | .ok x => p x | _ => false

theorem okAnd_exists {p : σ → Bool} {r : Res σ} (h : okAnd p r = true) :
    ∃ x, r = .ok x ∧ p x = true := by
  cases r <;> simp_all [okAnd]

@[simp] theorem bind_ok (s : σ) (f : σ → Res τ) : (Res.ok s).bind f = f s := rfl
@[simp] theorem bind_err (e : String) (f : σ → Res τ) : (Res.err e : Res σ).bind f = .err e := rfl
@[simp] theorem bind_panic (e : String) (f : σ → Res τ) : (Res.panic e : Res σ).bind f = .panic e := rfl

theorem bind_eq_ok {r : Res σ} {f : σ → Res τ} {y : τ} :
    r.bind f = .ok y ↔ ∃ x, r = .ok x ∧ f x = .ok y := by
  cases r <;> simp

theorem bind_assoc {υ : Type} (r : Res σ) (f : σ → Res τ) (h : τ → Res υ) :
    (r.bind f).bind h = r.bind (fun x => (f x).bind h) := by
  cases r <;> rfl

theorem bind_pure_ok (r : Res σ) : r.bind Res.ok = r := by cases r <;> rfl

theorem foldR_nil (f : σ → β → Res σ) (s : σ) : foldR f s [] = .ok s := rfl

theorem foldR_cons (f : σ → β → Res σ) (s : σ) (x : β) (xs : List β) :
    foldR f s (x :: xs) = (f s x).bind (fun s' => foldR f s' xs) := rfl

theorem foldR_append (f : σ → β → Res σ) (s : σ) (a b : List β) :
    foldR f s (a ++ b) = (foldR f s a).bind (fun s' => foldR f s' b) := by
  induction a generalizing s with
  | nil => rfl
  | cons x xs ih =>
    rw [List.cons_append, foldR_cons, foldR_cons, bind_assoc]
    congr 1; funext s'; exact ih s'

theorem ensure_true (tag : String) : ensure true tag = .ok () := rfl
theorem ensure_false (tag : String) : ensure false tag = .err tag := rfl

theorem setLast_append_singleton (L : List β) (x : β) (f : β → β) :
    setLast (L ++ [x]) f = L ++ [f x] := by
  unfold setLast; simp

theorem setLast_nil (f : β → β) : setLast ([] : List β) f = [] := rfl

theorem eq_append_of_ne_nil {l : List β} (h : l ≠ []) : ∃ L x, l = L ++ [x] :=
  ⟨l.dropLast, l.getLast h, (List.dropLast_append_getLast h).symm⟩

theorem setLast_length (l : List β) (f : β → β) : (setLast l f).length = l.length := by
  rcases List.eq_nil_or_concat l with rfl | ⟨L, x, rfl⟩
  · rfl
  · rw [List.concat_eq_append, setLast_append_singleton]; simp

theorem lastR_append_singleton (L : List β) (x : β) : lastR (L ++ [x]) = .ok x := by
  unfold lastR; simp

theorem lastR_nil : lastR ([] : List β) = .panic "unwrap-none" := rfl

theorem getL_eq_ok {l : List β} {i : Nat} {v : β} : getL l i = .ok v ↔ l[i]? = some v := by
  unfold getL; cases l[i]? <;> simp

theorem getL_of_some {l : List β} {i : Nat} {v : β} (h : l[i]? = some v) : getL l i = .ok v :=
  getL_eq_ok.mpr h

theorem getL_none {l : List β} {i : Nat} (h : l[i]? = none) : getL l i = .panic "index" := by
  unfold getL; rw [h]

theorem rmap_bind (f : τ → υ) (r : Res σ) (k : σ → Res τ) :
    rmap f (r.bind k) = r.bind (fun x => rmap f (k x)) := by cases r <;> rfl
theorem bind_rmap (f : σ → τ) (r : Res σ) (k : τ → Res υ) :
    (rmap f r).bind k = r.bind (fun x => k (f x)) := by cases r <;> rfl

end generic

/-! ## Vocabulary of the C06 statements -/

section defs
variable {α : Type} [Add α] [Sub α] [Mul α] [Div α] [Neg α] [LT α] [LE α]
  [DecidableLT α] [DecidableLE α] [OfNat α 0] [OfNat α 1]

/-- `route` names the links `links` of `net` (every index in range) -/
def Resolves (net : List (Link α)) (route : List Nat) (links : List (Link α)) : Prop :=
  route.map (fun i => net[i]?) = links.map some

/-- What `Link::validate` enforces on a real link (link_impl.rs:161-257, elev.rs:59, heading.rs):
    positive length; at least two elevation points, offsets strictly increasing, first `0`,
    last `= length`; headings empty or likewise. -/
structure LinkOK (l : Link α) : Prop where
  len_pos : 0 < l.length
  elev_two : 2 ≤ l.elevs.length
  elev_chain : l.elevs.IsChain (fun p c => p.off < c.off)
  elev_first : l.elevs.head?.map (·.off) = some 0
  elev_last : l.elevs.getLast?.map (·.off) = some l.length
  head_ok : l.headings = [] ∨
    (2 ≤ l.headings.length ∧ l.headings.IsChain (fun p c => p.off < c.off) ∧
      l.headings.head?.map (·.off) = some 0 ∧ l.headings.getLast?.map (·.off) = some l.length)

/-- first / last elevation of a point list (`0` on the empty list, which `LinkOK` excludes) -/
def elevFirst : List (Elev α) → α
  | [] => 0
  | p :: _ => p.elev
def elevLast : List (Elev α) → α
  | [] => 0
  | [p] => p.elev
  | _ :: c :: t => elevLast (c :: t)

/-- the link-point record written for `l` at offset `off` -/
def lpOf (off : α) (l : Link α) : LinkPt α :=
  ⟨off, max l.elevs.length 2 - 1, max l.headings.length 2 - 1, l.cats.length, l.idxCurr⟩

/-- closed form of the link points: the last (dummy) point `last` is overwritten by the first new
    link, every link appends a fresh dummy at `length + base` -/
def routeLPs (last : LinkPt α) : List (Link α) → List (LinkPt α)
  | [] => [last]
  | l :: ls => lpOf last.off l :: routeLPs ⟨l.length + last.off, 0, 0, 0, 0⟩ ls

/-- cumulative offsets `b, b + l₁, b + l₁ + l₂, …` -/
def prefixOffs (b : α) : List (Link α) → List α
  | [] => [b]
  | l :: ls => b :: prefixOffs (b + l.length) ls

/-- total length of a route -/
def routeLen : List (Link α) → α
  | [] => 0
  | l :: ls => l.length + routeLen ls

/-- grade segments of one link: one point per consecutive elevation pair `(p, c)`, at offset
    `b + p.off`, slope `(c.elev − p.elev)/(c.off − p.off)`, cumulative value `n + (p.elev − e0)` -/
def segGrades (b n e0 : α) : List (Elev α) → List (PRC α)
  | p :: c :: t =>
    ⟨b + p.off, (c.elev - p.elev) / (c.off - p.off), n + (p.elev - e0)⟩ :: segGrades b n e0 (c :: t)
  | _ => []

/-- closed form of `grades` behind a terminal point `⟨b, c0, n⟩` -/
def routeGrades (b c0 n : α) : List (Link α) → List (PRC α)
  | [] => [⟨b, c0, n⟩]
  | l :: ls =>
    segGrades b n (elevFirst l.elevs) l.elevs ++
      routeGrades (b + l.length) 0 (n + (elevLast l.elevs - elevFirst l.elevs)) ls

/-- curve segments of one link: one point per consecutive heading pair -/
def segCurves (g : GeoConsts α) (par : TrainPar α) (b n : α) : List (Heading α) → List (PRC α)
  | p :: c :: t =>
    ⟨b + p.off, curveCoeff g par (c.heading - p.heading) (c.off - p.off), n⟩ ::
      segCurves g par b
        (n + curveCoeff g par (c.heading - p.heading) (c.off - p.off) * (c.off - p.off)) (c :: t)
  | _ => []

/-- cumulative curve value behind a heading list -/
def curvesNet (g : GeoConsts α) (par : TrainPar α) (n : α) : List (Heading α) → α
  | p :: c :: t =>
    curvesNet g par
      (n + curveCoeff g par (c.heading - p.heading) (c.off - p.off) * (c.off - p.off)) (c :: t)
  | _ => n

/-- closed form of `curves` behind a terminal point `⟨b, c0, n⟩`: a link without headings keeps
    the terminal point (coefficient `c0`, `0` after the first link) as its only segment -/
def routeCurves (g : GeoConsts α) (par : TrainPar α) (b c0 n : α) : List (Link α) → List (PRC α)
  | [] => [⟨b, c0, n⟩]
  | l :: ls =>
    (if l.headings.isEmpty then [⟨b, c0, n⟩] else segCurves g par b n l.headings) ++
      routeCurves g par (b + l.length) 0 (curvesNet g par n l.headings) ls

/-- a catenary section shifted by the link's base offset -/
def shiftCat (b : α) (c : CatLim α) : CatLim α := { c with s := b + c.s, e := b + c.e }

/-- closed form of the catenary sections added by a route starting at base `b` -/
def routeCats (b : α) : List (Link α) → List (CatLim α)
  | [] => []
  | l :: ls => l.cats.map (shiftCat b) ++ routeCats (b + l.length) ls

/-- elevation inside one link by its own points, at the link-relative position `x`
    (linear interpolation; constant beyond the last point) -/
def linkElev : List (Elev α) → α → α
  | p :: c :: t, x =>
    if x ≤ c.off then p.elev + (c.elev - p.elev) / (c.off - p.off) * (x - p.off)
    else linkElev (c :: t) x
  | [p], _ => p.elev
  | [], _ => 0

/-- walk the links: inside a link add the elevation difference to the link's first point,
    behind it carry the link's total rise to the next link -/
def routeElevFrom (e : α) : List (Link α) → α → α
  | [], _ => e
  | l :: ls, x =>
    if x ≤ l.length then e + (linkElev l.elevs x - elevFirst l.elevs)
    else routeElevFrom (e + (elevLast l.elevs - elevFirst l.elevs)) ls (x - l.length)

/-- elevation of a route at path position `x`, from the route's own elevation points: starts at the
    first elevation of the first link -/
def routeElev (links : List (Link α)) (x : α) : α :=
  match links with
  | [] => 0
  | l :: _ => routeElevFrom (elevFirst l.elevs) links x

/-- the contiguity `ensure!`s of one link against the previous link index -/
def linked (prev : Nat) (l : Link α) : Bool :=
  (prev != 0) && (l.idxPrev != l.idxPrevAlt || l.idxPrevAlt == 0) &&
  (l.idxNext != l.idxNextAlt || l.idxNextAlt == 0) && (l.idxPrev == prev || l.idxPrevAlt == prev)

/-- the checks run only when there is a previous link (`link_points.len() >= 2`) -/
def linkedOpt : Option Nat → Link α → Bool
  | none, _ => true
  | some prev, l => linked prev l

/-- every link is accepted by the contiguity checks, `prev` being the link before the first -/
def contig : Option Nat → List (Link α) → Bool
  | _, [] => true
  | prev, l :: ls => linkedOpt prev l && contig (some l.idxCurr) ls

/-- the link index in front of the dummy link point, if any -/
def prevIdx (lps : List (LinkPt α)) : Option Nat := lps.dropLast.getLast?.map (·.linkIdx)

/-- the speed-point part of loop 1 on its own: `add_speeds` link by link at the cumulative bases -/
def routeSpeeds (toU32 : α → Nat) (par : TrainPar α) (sp : List (Pt α)) (b : α) :
    List (Link α) → Res (List (Pt α))
  | [] => .ok sp
  | l :: ls =>
    (extractSpeedSet l par.trainType).bind fun ss =>
    (addSpeedsIdx toU32 sp par.tp ss.params ss.isHeadEnd ss.lims b).bind fun sp' =>
    routeSpeeds toU32 par sp' (l.length + b) ls

/-- the initial-elevation prelude of `extend` -/
def prelude (net : List (Link α)) (t : Tpc α) (path : List Nat) : Res (Tpc α) :=
  if t.grades.length == 1 && !path.isEmpty then do
    let first ← getL path 0
    let l ← getL net first
    match l.elevs.head? with
    | some e => pure { t with grades := setLast t.grades (fun x => { x with net := e.elev }) }
    | none => pure t
  else pure t

/-- `extend` behind its four `ensure!`s -/
def extendCore (toU32 : α → Nat) (g : GeoConsts α) (net : List (Link α)) (t : Tpc α)
    (path : List Nat) : Res (Tpc α) :=
  (prelude net t path).bind fun t0 =>
  (foldR (extendLinkPoint toU32 net) t0 path).bind fun t1 =>
  foldR (extendGeometry g net) t1 path

/-! ### normal forms of `extend` and of its two loop bodies -/

theorem extend_eq (toU32 : α → Nat) (g : GeoConsts α) (net : List (Link α)) (t : Tpc α)
    (path : List Nat) :
    extend toU32 g net t path =
      (ensure (!t.linkPoints.isEmpty) "link-points-empty").bind fun _ =>
      (ensure (!t.grades.isEmpty) "grades-empty").bind fun _ =>
      (ensure (!t.curves.isEmpty) "curves-empty").bind fun _ =>
      (ensure (!t.speedPoints.isEmpty) "speed-points-empty").bind fun _ =>
      extendCore toU32 g net t path := rfl

/-- the contiguity block of loop 1 (`if self.link_points.len() >= 2 { … }`) -/
def contigChecks (lps : List (LinkPt α)) (link : Link α) : Res Unit :=
  if lps.length ≥ 2 then
    (getL lps (lps.length - 2)).bind fun prevLp =>
    (ensure (prevLp.linkIdx != 0) "prev-fake").bind fun _ =>
    (ensure (link.idxPrev != link.idxPrevAlt || link.idxPrevAlt == 0) "prev-alt-dup").bind fun _ =>
    (ensure (link.idxNext != link.idxNextAlt || link.idxNextAlt == 0) "next-alt-dup").bind fun _ =>
    ensure (link.idxPrev == prevLp.linkIdx || link.idxPrevAlt == prevLp.linkIdx) "not-contiguous"
  else .ok ()

theorem extendLinkPoint_eq (toU32 : α → Nat) (net : List (Link α)) (t : Tpc α) (idx : Nat) :
  extendLinkPoint toU32 net t idx =
  (ensure (idx != 0) "link-idx-fake").bind fun _ =>
  (getL net idx).bind fun link =>
  (lastR t.linkPoints).bind fun lastLp =>
  (contigChecks t.linkPoints link).bind fun _ =>
  (extractSpeedSet link t.par.trainType).bind fun ss =>
  (addSpeedsIdx toU32 t.speedPoints t.par.tp ss.params ss.isHeadEnd ss.lims lastLp.off).bind fun sp =>
  .ok { t with speedPoints := sp, linkPoints := setLast t.linkPoints (fun _ => lpOf lastLp.off link) ++ [⟨link.length + lastLp.off, 0,0,0,0⟩] } := by
  unfold extendLinkPoint contigChecks
  simp only [bind, pure]
  cases ensure (idx != 0) "link-idx-fake" <;> simp only [bind_ok, bind_err, bind_panic]
  cases getL net idx <;> simp only [bind_ok, bind_err, bind_panic]
  cases lastR t.linkPoints <;> simp only [bind_ok, bind_err, bind_panic]
  split_ifs
  · simp only [bind_assoc]; rfl
  · rfl

theorem extendGeometry_eq (g : GeoConsts α) (net : List (Link α)) (t : Tpc α) (idx : Nat) :
  extendGeometry g net t idx =
  (getL net idx).bind fun link =>
  (lastR t.grades).bind fun lastG =>
  (lastR t.curves).bind fun lastC =>
  .ok { t with
    grades := if link.elevs.isEmpty then t.grades ++ [⟨lastG.off + link.length, 0, lastG.net⟩]
      else (pushGrades t.grades lastG.off lastG.net link.elevs).1,
    curves := if link.headings.isEmpty then t.curves ++ [⟨lastG.off + link.length, 0, lastC.net⟩]
      else (pushCurves g t.par t.curves lastG.off lastC.net link.headings).1,
    cats := t.cats ++ link.cats.map (shiftCat lastG.off) } := rfl

/-- the contiguity checks never panic and accept exactly when `linkedOpt` holds -/
theorem contigChecks_eq (L : List (LinkPt α)) (last : LinkPt α) (link : Link α) :
    (linkedOpt (L.getLast?.map (·.linkIdx)) link = true → contigChecks (L ++ [last]) link = .ok ()) ∧
    (linkedOpt (L.getLast?.map (·.linkIdx)) link = false → ∃ tag, contigChecks (L ++ [last]) link = .err tag) := by
  rcases List.eq_nil_or_concat L with rfl | ⟨L', q, rfl⟩
  · simp [contigChecks, linkedOpt]
  · have hlen : (L'.concat q ++ [last]).length ≥ 2 := by simp
    have hget : getL (L'.concat q ++ [last]) ((L'.concat q ++ [last]).length - 2) = .ok q := by
      apply getL_of_some; simp
    unfold contigChecks
    rw [if_pos hlen, hget]
    simp only [bind_ok, List.concat_eq_append, List.getLast?_append, List.getLast?_singleton, Option.some_or,
      Option.map_some, linkedOpt, linked]
    cases h1 : (q.linkIdx != 0) <;> cases h2 : (link.idxPrev != link.idxPrevAlt || link.idxPrevAlt == 0) <;>
      cases h3 : (link.idxNext != link.idxNextAlt || link.idxNextAlt == 0) <;>
      cases h4 : (link.idxPrev == q.linkIdx || link.idxPrevAlt == q.linkIdx) <;>
      simp [ensure]

/-! ### `Resolves` -/

theorem resolves_nil {net : List (Link α)} {route : List Nat} :
    Resolves net route [] ↔ route = [] := by
  unfold Resolves; simp

theorem resolves_cons {net : List (Link α)} {route : List Nat} {l : Link α} {ls : List (Link α)} :
    Resolves net route (l :: ls) ↔ ∃ i r, route = i :: r ∧ net[i]? = some l ∧ Resolves net r ls := by
  unfold Resolves
  cases route with
  | nil => simp
  | cons i r => simp

theorem resolves_length {net : List (Link α)} {route : List Nat} {links : List (Link α)}
    (h : Resolves net route links) : route.length = links.length := by
  have := congrArg List.length h; simpa using this

theorem resolves_append {net : List (Link α)} {r1 r2 : List Nat} {l1 l2 : List (Link α)}
    (h1 : Resolves net r1 l1) (h2 : Resolves net r2 l2) : Resolves net (r1 ++ r2) (l1 ++ l2) := by
  unfold Resolves at *; simp [h1, h2]

/-! ### loop 1 (link points): accepted outcomes -/

@[simp] theorem lpOf_linkIdx (o : α) (l : Link α) : (lpOf o l).linkIdx = l.idxCurr := rfl
@[simp] theorem lpOf_off (o : α) (l : Link α) : (lpOf o l).off = o := rfl

/-- one step of loop 1, accepted outcomes -/
theorem extendLinkPoint_ok_iff (toU32 : α → Nat) (net : List (Link α)) {t t' : Tpc α}
    {L : List (LinkPt α)} {last : LinkPt α} {idx : Nat} {l : Link α}
    (hl : net[idx]? = some l) (hL : t.linkPoints = L ++ [last]) :
    extendLinkPoint toU32 net t idx = .ok t' ↔
      idx ≠ 0 ∧ linkedOpt (L.getLast?.map (·.linkIdx)) l = true ∧
      ∃ ss, extractSpeedSet l t.par.trainType = .ok ss ∧
      ∃ sp, addSpeedsIdx toU32 t.speedPoints t.par.tp ss.params ss.isHeadEnd ss.lims last.off = .ok sp ∧
        t' = { t with speedPoints := sp,
                      linkPoints := L ++ [lpOf last.off l, ⟨l.length + last.off, 0, 0, 0, 0⟩] } := by
  rw [extendLinkPoint_eq, getL_of_some hl, hL, lastR_append_singleton]
  simp only [bind_ok, setLast_append_singleton]
  have hc := contigChecks_eq L last l
  by_cases h0 : idx = 0
  · subst h0; simp [ensure]
  · have : (idx != 0) = true := by simpa using h0
    rw [this, ensure_true, bind_ok]
    cases hlk : linkedOpt (L.getLast?.map (·.linkIdx)) l
    · obtain ⟨tag, ht⟩ := hc.2 hlk
      rw [ht]; simp
    · rw [hc.1 hlk, bind_ok]
      simp only [bind_eq_ok, ne_eq, h0, not_false_eq_true, true_and, Res.ok.injEq, List.append_assoc,
        List.cons_append, List.nil_append]
      constructor
      · rintro ⟨ss, hss, sp, hsp, rfl⟩; exact ⟨ss, hss, sp, hsp, rfl⟩
      · rintro ⟨ss, hss, sp, hsp, rfl⟩; exact ⟨ss, hss, sp, hsp, rfl⟩

/-- loop 1 on a resolved route: accepted exactly when no index is fake, the contiguity checks hold
    and the speed part succeeds; the link points are then given by `routeLPs` -/
theorem lp_fold_ok_iff (toU32 : α → Nat) (net : List (Link α)) :
    ∀ (links : List (Link α)) (route : List Nat) (t t' : Tpc α) (L : List (LinkPt α)) (last : LinkPt α),
    Resolves net route links → t.linkPoints = L ++ [last] →
    (foldR (extendLinkPoint toU32 net) t route = .ok t' ↔
      (∀ i ∈ route, i ≠ 0) ∧ contig (L.getLast?.map (·.linkIdx)) links = true ∧
      ∃ sp, routeSpeeds toU32 t.par t.speedPoints last.off links = .ok sp ∧
        t' = { t with speedPoints := sp, linkPoints := L ++ routeLPs last links }) := by
  intro links
  induction links with
  | nil =>
    intro route t t' L last hres hL
    rw [resolves_nil] at hres; subst hres
    simp only [foldR_nil, Res.ok.injEq, List.not_mem_nil, false_imp_iff, implies_true, contig,
      routeSpeeds, routeLPs, true_and, exists_eq_left']
    constructor
    · rintro rfl; cases t; simp only at hL; subst hL; rfl
    · rintro rfl; cases t; simp only at hL; subst hL; rfl
  | cons l ls ih =>
    intro route t t' L last hres hL
    obtain ⟨i, r, rfl, hl, hres'⟩ := resolves_cons.mp hres
    rw [foldR_cons, bind_eq_ok]
    constructor
    · rintro ⟨t1, h1, h2⟩
      obtain ⟨hi0, hlk, ss, hss, sp1, hsp1, rfl⟩ := (extendLinkPoint_ok_iff toU32 net hl hL).mp h1
      have := (ih r _ t' (L ++ [lpOf last.off l]) ⟨l.length + last.off, 0, 0, 0, 0⟩ hres'
        (by simp)).mp h2
      obtain ⟨hr0, hcon, sp, hsp, rfl⟩ := this
      refine ⟨?_, ?_, sp, ?_, ?_⟩
      · intro j hj; rcases List.mem_cons.mp hj with rfl | hj
        · exact hi0
        · exact hr0 j hj
      · simp only [contig, hlk, Bool.true_and]
        simpa using hcon
      · simp only [routeSpeeds, hss, bind_ok, hsp1]; exact hsp
      · simp [routeLPs]
    · rintro ⟨h0, hcon, sp, hsp, rfl⟩
      simp only [contig, Bool.and_eq_true] at hcon
      simp only [routeSpeeds, bind_eq_ok] at hsp
      obtain ⟨ss, hss, sp1, hsp1, hsp⟩ := hsp
      refine ⟨_, (extendLinkPoint_ok_iff toU32 net hl hL).mpr
        ⟨h0 i (by simp), hcon.1, ss, hss, sp1, hsp1, rfl⟩, ?_⟩
      apply (ih r _ _ (L ++ [lpOf last.off l]) ⟨l.length + last.off, 0, 0, 0, 0⟩ hres' (by simp)).mpr
      refine ⟨fun j hj => h0 j (by simp [hj]), by simpa using hcon.2, sp, hsp, ?_⟩
      simp [routeLPs]

/-- the cumulative value the terminal grade point carries into loop 2: the first elevation of the
    first new link when the path is fresh (`grades.len() == 1`), otherwise unchanged -/
def initNet (G : List (PRC α)) (ng : α) (links : List (Link α)) : α :=
  match G, links with
  | [], l :: _ => elevFirst l.elevs
  | _, _ => ng

theorem lp_fold_resolves (toU32 : α → Nat) (net : List (Link α)) :
    ∀ (route : List Nat) (t t' : Tpc α), foldR (extendLinkPoint toU32 net) t route = .ok t' →
      ∃ links, Resolves net route links := by
  intro route
  induction route with
  | nil => intro _ _ _; exact ⟨[], resolves_nil.mpr rfl⟩
  | cons i r ih =>
    intro t t' h
    rw [foldR_cons, bind_eq_ok] at h
    obtain ⟨t1, h1, h2⟩ := h
    obtain ⟨ls, hls⟩ := ih t1 t' h2
    rw [extendLinkPoint_eq] at h1
    obtain ⟨_, _, h1⟩ := bind_eq_ok.mp h1
    obtain ⟨l, hl, _⟩ := bind_eq_ok.mp h1
    exact ⟨l :: ls, resolves_cons.mpr ⟨i, r, rfl, getL_eq_ok.mp hl, hls⟩⟩

theorem prelude_ok (net : List (Link α)) (t : Tpc α) (route : List Nat) (links : List (Link α))
    (G : List (PRC α)) (b cg ng : α)
    (hres : Resolves net route links) (hne : ∀ l ∈ links, l.elevs ≠ [])
    (hG : t.grades = G ++ [⟨b, cg, ng⟩]) :
    prelude net t route = .ok { t with grades := G ++ [⟨b, cg, initNet G ng links⟩] } := by
  unfold prelude
  cases G with
  | nil =>
    cases links with
    | nil =>
      rw [resolves_nil] at hres; subst hres
      cases t; simp only at hG; subst hG
      simp [initNet, pure]
    | cons l ls =>
      obtain ⟨i, r, rfl, hl, _⟩ := resolves_cons.mp hres
      have : l.elevs ≠ [] := hne l (by simp)
      obtain ⟨p, es, hes⟩ := List.exists_cons_of_ne_nil this
      have h0 : getL (i :: r) 0 = .ok i := getL_of_some (by simp)
      simp only [hG, List.nil_append, List.length_singleton, beq_self_eq_true, List.isEmpty_cons,
        Bool.not_false, Bool.and_self, if_true, bind, h0, bind_ok, getL_of_some hl, hes, List.head?_cons,
        pure, initNet, elevFirst]
      rw [show ([({ off := b, coeff := cg, net := ng } : PRC α)]) = [] ++ [⟨b, cg, ng⟩] from rfl,
        setLast_append_singleton]
      rfl
  | cons x G' =>
    cases t; simp only at hG; subst hG
    simp [initNet, pure]

/-! ### closed forms: lengths, counts, link-point fields -/

/-- the real (non-dummy) link points of a route starting at base `b` -/
def lpsBody (b : α) : List (Link α) → List (LinkPt α)
  | [] => []
  | l :: ls => lpOf b l :: lpsBody (l.length + b) ls

theorem routeLPs_ne_nil (last : LinkPt α) (links : List (Link α)) : routeLPs last links ≠ [] := by
  cases links <;> simp [routeLPs]

theorem routeLPs_dropLast : ∀ (links : List (Link α)) (last : LinkPt α),
    (routeLPs last links).dropLast = lpsBody last.off links
  | [], last => rfl
  | l :: ls, last => by
    rw [routeLPs, List.dropLast_cons_of_ne_nil (routeLPs_ne_nil _ _), routeLPs_dropLast ls, lpsBody]

theorem lpsBody_linkIdx : ∀ (links : List (Link α)) (b : α),
    (lpsBody b links).map (·.linkIdx) = links.map (·.idxCurr)
  | [], _ => rfl
  | l :: ls, b => by simp [lpsBody, lpsBody_linkIdx ls]

theorem lpsBody_gradeCount : ∀ (links : List (Link α)) (b : α),
    (lpsBody b links).map (·.gradeCount) = links.map (fun l => max l.elevs.length 2 - 1)
  | [], _ => rfl
  | l :: ls, b => by simp [lpsBody, lpsBody_gradeCount ls, lpOf]

theorem lpsBody_curveCount : ∀ (links : List (Link α)) (b : α),
    (lpsBody b links).map (·.curveCount) = links.map (fun l => max l.headings.length 2 - 1)
  | [], _ => rfl
  | l :: ls, b => by simp [lpsBody, lpsBody_curveCount ls, lpOf]

theorem lpsBody_catCount : ∀ (links : List (Link α)) (b : α),
    (lpsBody b links).map (·.catCount) = links.map (fun l => l.cats.length)
  | [], _ => rfl
  | l :: ls, b => by simp [lpsBody, lpsBody_catCount ls, lpOf]

theorem lpsBody_length : ∀ (links : List (Link α)) (b : α), (lpsBody b links).length = links.length
  | [], _ => rfl
  | l :: ls, b => by simp [lpsBody, lpsBody_length ls]

theorem foldl_count {β : Type} (f : β → Nat) (l : List β) (a : Nat) :
    l.foldl (fun a p => a + f p) a = a + (l.map f).sum := by
  induction l generalizing a with
  | nil => simp
  | cons x xs ih => simp [ih, Nat.add_assoc]

theorem segGrades_length (b n e0 : α) : ∀ es : List (Elev α), (segGrades b n e0 es).length = es.length - 1
  | [] => rfl
  | [_] => rfl
  | p :: c :: t => by simp [segGrades, segGrades_length b n e0 (c :: t)]

theorem segCurves_length (g : GeoConsts α) (par : TrainPar α) (b : α) :
    ∀ (hs : List (Heading α)) (n : α), (segCurves g par b n hs).length = hs.length - 1
  | [], _ => rfl
  | [_], _ => rfl
  | p :: c :: t, n => by simp [segCurves, segCurves_length g par b (c :: t)]

theorem routeGrades_length : ∀ (links : List (Link α)) (b c0 n : α),
    (routeGrades b c0 n links).length = (links.map (fun l => l.elevs.length - 1)).sum + 1
  | [], _, _, _ => rfl
  | l :: ls, b, c0, n => by
    simp [routeGrades, segGrades_length, routeGrades_length ls, Nat.add_assoc]

theorem routeCurves_length (g : GeoConsts α) (par : TrainPar α) : ∀ (links : List (Link α)) (b c0 n : α),
    (routeCurves g par b c0 n links).length =
      (links.map (fun l => if l.headings.isEmpty then 1 else l.headings.length - 1)).sum + 1
  | [], _, _, _ => rfl
  | l :: ls, b, c0, n => by
    simp only [routeCurves, List.length_append, routeCurves_length g par ls, List.map_cons, List.sum_cons]
    split_ifs <;> simp [segCurves_length, Nat.add_assoc]

theorem routeCats_length : ∀ (links : List (Link α)) (b : α),
    (routeCats b links).length = (links.map (fun l => l.cats.length)).sum
  | [], _ => rfl
  | l :: ls, b => by simp [routeCats, routeCats_length ls]

/-- `routeCats` as a plain shifted concatenation over the cumulative offsets -/
theorem routeCats_eq_flatMap : ∀ (links : List (Link α)) (b : α),
    routeCats b links =
      ((prefixOffs b links).zip links).flatMap (fun ol => ol.2.cats.map (shiftCat ol.1))
  | [], _ => by simp [routeCats, prefixOffs]
  | l :: ls, b => by simp [routeCats, prefixOffs, routeCats_eq_flatMap ls]


/-! ### frame lemmas: what each loop reads and writes -/

/-- `s` with the loop-1 fields (`speedPoints`, `linkPoints`) of `u` -/
def lpSet (s u : Tpc α) : Tpc α := { s with speedPoints := u.speedPoints, linkPoints := u.linkPoints }
/-- `s` with the loop-2 fields (`grades`, `curves`, `cats`) of `u` -/
def geoSet (s u : Tpc α) : Tpc α := { s with grades := u.grades, curves := u.curves, cats := u.cats }

/-- loop 1 writes only `speedPoints` and `linkPoints` -/
theorem extendLinkPoint_writes (toU32 : α → Nat) (net : List (Link α)) {s s' : Tpc α} {idx : Nat}
    (h : extendLinkPoint toU32 net s idx = .ok s') : s' = lpSet s s' := by
  rw [extendLinkPoint_eq] at h
  obtain ⟨_, _, h⟩ := bind_eq_ok.mp h
  obtain ⟨_, _, h⟩ := bind_eq_ok.mp h
  obtain ⟨_, _, h⟩ := bind_eq_ok.mp h
  obtain ⟨_, _, h⟩ := bind_eq_ok.mp h
  obtain ⟨_, _, h⟩ := bind_eq_ok.mp h
  obtain ⟨_, _, h⟩ := bind_eq_ok.mp h
  cases h; rfl

/-- loop 1 reads only `linkPoints`, `speedPoints` and `par` -/
theorem lp_frame_step (toU32 : α → Nat) (net : List (Link α)) (s s2 : Tpc α) (idx : Nat)
    (h1 : s2.linkPoints = s.linkPoints) (h2 : s2.speedPoints = s.speedPoints) (h3 : s2.par = s.par) :
    extendLinkPoint toU32 net s2 idx = rmap (lpSet s2) (extendLinkPoint toU32 net s idx) := by
  cases s; cases s2; simp only at h1 h2 h3; subst h1 h2 h3
  rw [extendLinkPoint_eq, extendLinkPoint_eq]
  simp only [rmap_bind]
  rfl

theorem lp_frame (toU32 : α → Nat) (net : List (Link α)) : ∀ (route : List Nat) (s s2 : Tpc α),
    s2.linkPoints = s.linkPoints → s2.speedPoints = s.speedPoints → s2.par = s.par →
    foldR (extendLinkPoint toU32 net) s2 route = rmap (lpSet s2) (foldR (extendLinkPoint toU32 net) s route) := by
  intro route
  induction route with
  | nil =>
    intro s s2 h1 h2 h3
    cases s2; cases s; simp only at h1 h2 h3; subst h1 h2 h3; rfl
  | cons i r ih =>
    intro s s2 h1 h2 h3
    rw [foldR_cons, foldR_cons, lp_frame_step toU32 net s s2 i h1 h2 h3, rmap_bind, bind_rmap]
    cases hs : extendLinkPoint toU32 net s i with
    | ok s' =>
      have hw := extendLinkPoint_writes toU32 net hs
      simp only [bind_ok]
      rw [ih s' (lpSet s2 s') rfl rfl (by rw [hw]; exact h3)]
      rfl
    | err e => rfl
    | panic e => rfl

/-- loop 2 writes only `grades`, `curves` and `cats` -/
theorem extendGeometry_writes (g : GeoConsts α) (net : List (Link α)) {s s' : Tpc α} {idx : Nat}
    (h : extendGeometry g net s idx = .ok s') : s' = geoSet s s' := by
  rw [extendGeometry_eq] at h
  obtain ⟨_, _, h⟩ := bind_eq_ok.mp h
  obtain ⟨_, _, h⟩ := bind_eq_ok.mp h
  obtain ⟨_, _, h⟩ := bind_eq_ok.mp h
  cases h; rfl

/-- loop 2 reads only `grades`, `curves`, `cats` and `par` -/
theorem geo_frame_step (g : GeoConsts α) (net : List (Link α)) (s s2 : Tpc α) (idx : Nat)
    (h1 : s2.grades = s.grades) (h2 : s2.curves = s.curves) (h3 : s2.cats = s.cats) (h4 : s2.par = s.par) :
    extendGeometry g net s2 idx = rmap (geoSet s2) (extendGeometry g net s idx) := by
  cases s; cases s2; simp only at h1 h2 h3 h4; subst h1 h2 h3 h4
  rw [extendGeometry_eq, extendGeometry_eq]
  simp only [rmap_bind]
  rfl

theorem geo_frame (g : GeoConsts α) (net : List (Link α)) : ∀ (route : List Nat) (s s2 : Tpc α),
    s2.grades = s.grades → s2.curves = s.curves → s2.cats = s.cats → s2.par = s.par →
    foldR (extendGeometry g net) s2 route = rmap (geoSet s2) (foldR (extendGeometry g net) s route) := by
  intro route
  induction route with
  | nil =>
    intro s s2 h1 h2 h3 h4
    cases s2; cases s; simp only at h1 h2 h3 h4; subst h1 h2 h3 h4; rfl
  | cons i r ih =>
    intro s s2 h1 h2 h3 h4
    rw [foldR_cons, foldR_cons, geo_frame_step g net s s2 i h1 h2 h3 h4, rmap_bind, bind_rmap]
    cases hs : extendGeometry g net s i with
    | ok s' =>
      have hw := extendGeometry_writes g net hs
      simp only [bind_ok]
      rw [ih s' (geoSet s2 s') rfl rfl rfl (by rw [hw]; exact h4)]
      rfl
    | err e => rfl
    | panic e => rfl

theorem lp_fold_writes (toU32 : α → Nat) (net : List (Link α)) : ∀ (route : List Nat) (s s' : Tpc α),
    foldR (extendLinkPoint toU32 net) s route = .ok s' → s' = lpSet s s' := by
  intro route
  induction route with
  | nil => intro s s' h; cases h; rfl
  | cons i r ih =>
    intro s s' h
    rw [foldR_cons, bind_eq_ok] at h
    obtain ⟨s1, h1, h2⟩ := h
    have e1 := extendLinkPoint_writes toU32 net h1
    have e2 := ih s1 s' h2
    rw [e2, e1]; rfl

theorem geo_fold_writes (g : GeoConsts α) (net : List (Link α)) : ∀ (route : List Nat) (s s' : Tpc α),
    foldR (extendGeometry g net) s route = .ok s' → s' = geoSet s s' := by
  intro route
  induction route with
  | nil => intro s s' h; cases h; rfl
  | cons i r ih =>
    intro s s' h
    rw [foldR_cons, bind_eq_ok] at h
    obtain ⟨s1, h1, h2⟩ := h
    have e1 := extendGeometry_writes g net h1
    have e2 := ih s1 s' h2
    rw [e2, e1]; rfl

/-! ### `add_speeds` keeps the speed-point vector non-empty -/

theorem removeAt_ne_nil {pts r : List (Pt α)} {i : Nat} (hi : 0 < i) (h : removeAt pts i = .ok r) : r ≠ [] := by
  unfold removeAt at h
  split_ifs at h with hlt
  cases h
  intro h0
  have := congrArg List.length h0
  simp [List.length_eraseIdx, hlt] at this
  omega

theorem setSpd_ne_nil {pts r : List (Pt α)} {i : Nat} {v : α} (hne : pts ≠ []) (h : setSpd pts i v = .ok r) : r ≠ [] := by
  unfold setSpd at h
  split at h
  · cases h; simpa using hne
  · cases h

theorem insertAt_ne_nil {pts r : List (Pt α)} {i : Nat} {p : Pt α} (h : insertAt pts i p = .ok r) : r ≠ [] := by
  unfold insertAt at h
  split_ifs at h with hle
  cases h
  intro h0
  have := congrArg List.length h0
  rw [List.length_insertIdx_of_le_length hle] at this
  simp at this

theorem updLoop_ne_nil (v : α) : ∀ (f : Nat) (pts : List (Pt α)) (is ie : Nat) (r : List (Pt α) × Nat),
    pts ≠ [] → updLoop v f pts is ie = .ok r → r.1 ≠ [] := by
  intro f
  induction f with
  | zero => intro pts is ie r _ h; cases h
  | succ f ih =>
    intro pts is ie r hne h
    rw [updLoop] at h
    by_cases hlt : is < ie
    · rw [if_pos hlt] at h
      simp only [bind, pure] at h
      obtain ⟨p, hp, h⟩ := bind_eq_ok.mp h
      obtain ⟨merge, hm, h⟩ := bind_eq_ok.mp h
      cases merge with
      | true =>
        simp only [if_true] at h
        obtain ⟨pts', hr, h⟩ := bind_eq_ok.mp h
        have his : 0 < is := by
          by_contra hc
          have : ¬ (is > 0) := hc
          rw [if_neg this] at hm
          cases hm
        exact ih pts' is (ie - 1) r (removeAt_ne_nil his hr) h
      | false =>
        simp only [Bool.false_eq_true, if_false] at h
        obtain ⟨pts', hr, h⟩ := bind_eq_ok.mp h
        exact ih pts' (is + 1) ie r (setSpd_ne_nil hne hr) h
    · rw [if_neg hlt] at h; cases h; exact hne

theorem pre_ne_nil {pts : List (Pt α)} {l : Lim α} (h : pre pts l = true) : pts ≠ [] := by
  intro h0; subst h0; simp [pre] at h

theorem insertSpeedIdx_ne_nil {pts r : List (Pt α)} {l : Lim α} (h : insertSpeedIdx pts l = .ok r) : r ≠ [] := by
  unfold insertSpeedIdx at h
  by_cases hpre : pre pts l = true
  · have hne := pre_ne_nil hpre
    simp only [hpre, Bool.not_true, Bool.false_eq_true, if_false, bind, pure] at h
    obtain ⟨last, hlast, h⟩ := bind_eq_ok.mp h
    by_cases hle : last.off ≤ l.s
    · rw [if_pos hle] at h
      by_cases hnb : neb last.spd (minSpeed last.spd l.v) = true
      · rw [if_pos hnb] at h
        by_cases hlt : last.off < l.s
        · rw [if_pos hlt] at h; cases h; simp
        · rw [if_neg hlt] at h
          obtain ⟨m, _, h⟩ := bind_eq_ok.mp h
          cases m
          · simp only [Bool.false_eq_true, if_false] at h; cases h; simp
          · simp only [if_true] at h; cases h; simpa using hne
      · rw [if_neg hnb] at h; cases h; exact hne
    · rw [if_neg hle] at h
      obtain ⟨is, _, h⟩ := bind_eq_ok.mp h
      obtain ⟨ie, _, h⟩ := bind_eq_ok.mp h
      obtain ⟨peOld, _, h⟩ := bind_eq_ok.mp h
      obtain ⟨pS, _, h⟩ := bind_eq_ok.mp h
      obtain ⟨x1, h1, h⟩ := bind_eq_ok.mp h
      obtain ⟨x2, h2, h⟩ := bind_eq_ok.mp h
      obtain ⟨x3, h3, h⟩ := bind_eq_ok.mp h
      have n1 : x1.1 ≠ [] := by
        by_cases c1 : l.s < pS.off
        · rw [if_pos c1] at h1
          by_cases c2 : is = 0
          · rw [if_pos c2] at h1; cases h1
          · rw [if_neg c2] at h1
            obtain ⟨q, _, h1⟩ := bind_eq_ok.mp h1
            by_cases c3 : neb q.spd (minSpeed q.spd l.v) = true
            · rw [if_pos c3] at h1
              obtain ⟨p', hp', h1⟩ := bind_eq_ok.mp h1
              cases h1; exact insertAt_ne_nil hp'
            · rw [if_neg c3] at h1; cases h1; exact hne
        · rw [if_neg c1] at h1; cases h1; exact hne
      have n2 : x2.1 ≠ [] := by
        by_cases c1 : peOld.off < l.e
        · rw [if_pos c1] at h2
          by_cases c3 : neb peOld.spd (minSpeed peOld.spd l.v) = true
          · rw [if_pos c3] at h2
            obtain ⟨p', hp', h2⟩ := bind_eq_ok.mp h2
            cases h2; exact insertAt_ne_nil hp'
          · rw [if_neg c3] at h2; cases h2; exact n1
        · rw [if_neg c1] at h2; cases h2; exact n1
      have n3 : x3.1 ≠ [] := updLoop_ne_nil _ _ _ _ _ _ n2 h3
      by_cases c1 : x3.2 > 0
      · rw [if_pos c1] at h
        obtain ⟨a, _, h⟩ := bind_eq_ok.mp h
        obtain ⟨b, _, h⟩ := bind_eq_ok.mp h
        by_cases c2 : eqb a.spd b.spd = true
        · rw [if_pos c2] at h; exact removeAt_ne_nil c1 h
        · rw [if_neg c2] at h; cases h; exact n3
      · rw [if_neg c1] at h; cases h; exact n3
  · simp [hpre] at h

theorem foldlM_ne_nil {β : Type} (f : List (Pt α) → β → Res (List (Pt α)))
    (hf : ∀ acc x r, acc ≠ [] → f acc x = .ok r → r ≠ []) :
    ∀ (xs : List β) (acc r : List (Pt α)), acc ≠ [] → xs.foldlM f acc = .ok r → r ≠ [] := by
  intro xs
  induction xs with
  | nil => intro acc r hne h; simp only [List.foldlM_nil, pure] at h; cases h; exact hne
  | cons x xs ih =>
    intro acc r hne h
    simp only [List.foldlM_cons, bind] at h
    obtain ⟨a1, h1, h2⟩ := bind_eq_ok.mp h
    exact ih a1 r (hf acc x a1 hne h1) h2

/-- `add_speeds` never empties the speed-point vector -/
theorem addSpeedsIdx_ne_nil (toU32 : α → Nat) {pts r : List (Pt α)} {tp : TrainP α} {ps : List (SParam α)}
    {isHeadEnd : Bool} {lims : List (Lim α)} {base : α} (hne : pts ≠ [])
    (h : addSpeedsIdx toU32 pts tp ps isHeadEnd lims base = .ok r) : r ≠ [] := by
  unfold addSpeedsIdx at h
  split_ifs at h
  · refine foldlM_ne_nil _ ?_ lims pts r hne h
    intro acc x r' hacc hr
    split_ifs at hr
    · exact insertSpeedIdx_ne_nil hr
    · cases hr; exact hacc
  · cases h; exact hne

/-! ### non-emptiness after loop 1, totality and growth of loop 2 -/

theorem extendLinkPoint_ne_nil (toU32 : α → Nat) (net : List (Link α)) {s s' : Tpc α} {idx : Nat}
    (h : extendLinkPoint toU32 net s idx = .ok s') (hsp : s.speedPoints ≠ []) :
    s'.linkPoints ≠ [] ∧ s'.speedPoints ≠ [] := by
  rw [extendLinkPoint_eq] at h
  obtain ⟨_, _, h⟩ := bind_eq_ok.mp h
  obtain ⟨_, _, h⟩ := bind_eq_ok.mp h
  obtain ⟨_, _, h⟩ := bind_eq_ok.mp h
  obtain ⟨_, _, h⟩ := bind_eq_ok.mp h
  obtain ⟨_, _, h⟩ := bind_eq_ok.mp h
  obtain ⟨sp, hsp', h⟩ := bind_eq_ok.mp h
  cases h
  exact ⟨by simp, addSpeedsIdx_ne_nil toU32 hsp hsp'⟩

theorem lp_fold_ne_nil (toU32 : α → Nat) (net : List (Link α)) : ∀ (route : List Nat) (s s' : Tpc α),
    foldR (extendLinkPoint toU32 net) s route = .ok s' → s.linkPoints ≠ [] → s.speedPoints ≠ [] →
    s'.linkPoints ≠ [] ∧ s'.speedPoints ≠ [] := by
  intro route
  induction route with
  | nil => intro s s' h h1 h2; cases h; exact ⟨h1, h2⟩
  | cons i r ih =>
    intro s s' h h1 h2
    rw [foldR_cons, bind_eq_ok] at h
    obtain ⟨s1, hs1, h⟩ := h
    obtain ⟨a, b⟩ := extendLinkPoint_ne_nil toU32 net hs1 h2
    exact ih s1 s' h a b

theorem pushGrades_length (b : α) : ∀ (es : List (Elev α)) (G : List (PRC α)) (n : α),
    (pushGrades G b n es).1.length = G.length + (es.length - 1)
  | [], G, n => by simp [pushGrades]
  | [_], G, n => by simp [pushGrades]
  | p :: c :: t, G, n => by
    rw [pushGrades, pushGrades_length b (c :: t)]
    simp only [List.length_append, setLast_length, List.length_cons, List.length_nil]
    omega

theorem pushCurves_length (g : GeoConsts α) (par : TrainPar α) (b : α) :
    ∀ (hs : List (Heading α)) (C : List (PRC α)) (n : α),
    (pushCurves g par C b n hs).1.length = C.length + (hs.length - 1)
  | [], C, n => by simp [pushCurves]
  | [_], C, n => by simp [pushCurves]
  | p :: c :: t, C, n => by
    rw [pushCurves, pushCurves_length g par b (c :: t)]
    simp only [List.length_append, setLast_length, List.length_cons, List.length_nil]
    omega

theorem lastR_of_ne_nil {β : Type} {l : List β} (h : l ≠ []) : ∃ x, lastR l = .ok x := by
  obtain ⟨L, x, rfl⟩ := eq_append_of_ne_nil h
  exact ⟨x, lastR_append_singleton L x⟩

/-- one loop-2 step on an in-range link cannot fail; the profiles never shrink and `grades` grows
    unless the link has exactly one elevation point -/
theorem extendGeometry_total (g : GeoConsts α) (net : List (Link α)) (s : Tpc α) (idx : Nat) (l : Link α)
    (hl : net[idx]? = some l) (hg : s.grades ≠ []) (hc : s.curves ≠ []) :
    ∃ s', extendGeometry g net s idx = .ok s' ∧ s.grades.length ≤ s'.grades.length ∧
      s.curves.length ≤ s'.curves.length ∧ (l.elevs.length ≠ 1 → s.grades.length < s'.grades.length) := by
  obtain ⟨lg, hlg⟩ := lastR_of_ne_nil hg
  obtain ⟨lc, hlc⟩ := lastR_of_ne_nil hc
  rw [extendGeometry_eq, getL_of_some hl, hlg, hlc]
  refine ⟨_, rfl, ?_, ?_, ?_⟩
  · dsimp only; split_ifs
    · simp
    · rw [pushGrades_length]; omega
  · dsimp only; split_ifs
    · simp
    · rw [pushCurves_length]; omega
  · intro h1; dsimp only; split_ifs with he
    · simp
    · rw [pushGrades_length]
      have : l.elevs.length ≠ 0 := by
        intro h0; apply he; rw [List.length_eq_zero_iff.mp h0]; rfl
      omega

theorem geo_fold_total (g : GeoConsts α) (net : List (Link α)) :
    ∀ (links : List (Link α)) (route : List Nat) (s : Tpc α), Resolves net route links →
    s.grades ≠ [] → s.curves ≠ [] →
    ∃ s', foldR (extendGeometry g net) s route = .ok s' ∧ s.grades.length ≤ s'.grades.length ∧
      s.curves.length ≤ s'.curves.length ∧
      (links ≠ [] → (∀ l ∈ links, l.elevs.length ≠ 1) → s.grades.length < s'.grades.length) := by
  intro links
  induction links with
  | nil =>
    intro route s hres hg hc
    rw [resolves_nil] at hres; subst hres
    exact ⟨s, rfl, le_refl _, le_refl _, fun h => absurd rfl h⟩
  | cons l ls ih =>
    intro route s hres hg hc
    obtain ⟨i, r, rfl, hl, hres'⟩ := resolves_cons.mp hres
    obtain ⟨s1, h1, a1, b1, c1⟩ := extendGeometry_total g net s i l hl hg hc
    have hg1 : s1.grades ≠ [] := by
      intro h0; rw [h0] at a1; simp at a1; exact hg a1
    have hc1 : s1.curves ≠ [] := by
      intro h0; rw [h0] at b1; simp at b1; exact hc b1
    obtain ⟨s', h2, a2, b2, _⟩ := ih r s1 hres' hg1 hc1
    refine ⟨s', by rw [foldR_cons, h1, bind_ok, h2], le_trans a1 a2, le_trans b1 b2, ?_⟩
    intro _ hall
    exact lt_of_lt_of_le (c1 (hall l (by simp))) a2

/-! ### the prelude -/

theorem prelude_nil (net : List (Link α)) (t : Tpc α) : prelude net t [] = .ok t := by
  unfold prelude; simp [pure]

theorem prelude_of_len (net : List (Link α)) (t : Tpc α) (p : List Nat) (h : t.grades.length ≠ 1) :
    prelude net t p = .ok t := by
  unfold prelude; simp [h, pure]

theorem prelude_append (net : List (Link α)) (t : Tpc α) (i : Nat) (a b : List Nat) :
    prelude net t (i :: a ++ b) = prelude net t (i :: a) := by
  unfold prelude
  have h1 : getL (i :: (a ++ b)) 0 = .ok i := getL_of_some (by simp)
  have h2 : getL (i :: a) 0 = .ok i := getL_of_some (by simp)
  simp only [List.cons_append, List.isEmpty_cons, h1, h2]

/-- the prelude touches only the cumulative value of the last grade point -/
theorem prelude_writes (net : List (Link α)) {t t0 : Tpc α} {p : List Nat} (h : prelude net t p = .ok t0) :
    t0 = { t with grades := t0.grades } ∧ t0.grades.length = t.grades.length := by
  unfold prelude at h
  split_ifs at h
  · simp only [bind, pure] at h
    obtain ⟨_, _, h⟩ := bind_eq_ok.mp h
    obtain ⟨l, _, h⟩ := bind_eq_ok.mp h
    split at h
    · cases h; exact ⟨rfl, setLast_length _ _⟩
    · cases h; exact ⟨rfl, rfl⟩
  · cases h; exact ⟨rfl, rfl⟩

/-! ### `extend_append` and partitions -/

theorem ensure_ok_ne_nil {β : Type} {l : List β} {tag : String} {u : Unit}
    (h : ensure (!l.isEmpty) tag = .ok u) : l ≠ [] := by
  intro h0; subst h0; simp [ensure] at h

theorem ensure_of_ne_nil {β : Type} {l : List β} (tag : String) (h : l ≠ []) :
    ensure (!l.isEmpty) tag = .ok () := by
  cases l with
  | nil => exact absurd rfl h
  | cons _ _ => rfl

theorem extend_of_ne_nil (toU32 : α → Nat) (g : GeoConsts α) (net : List (Link α)) (t : Tpc α)
    (p : List Nat) (h1 : t.linkPoints ≠ []) (h2 : t.grades ≠ []) (h3 : t.curves ≠ [])
    (h4 : t.speedPoints ≠ []) : extend toU32 g net t p = extendCore toU32 g net t p := by
  rw [extend_eq, ensure_of_ne_nil _ h1, ensure_of_ne_nil _ h2, ensure_of_ne_nil _ h3,
    ensure_of_ne_nil _ h4]
  rfl

theorem extendCore_nil (toU32 : α → Nat) (g : GeoConsts α) (net : List (Link α)) (t : Tpc α) :
    extendCore toU32 g net t [] = .ok t := by
  unfold extendCore; rw [prelude_nil]; rfl

theorem resolves_mem {net : List (Link α)} : ∀ {route : List Nat} {links : List (Link α)},
    Resolves net route links → ∀ l ∈ links, ∃ i ∈ route, net[i]? = some l := by
  intro route links
  induction links generalizing route with
  | nil => intro _ l hl; simp at hl
  | cons x xs ih =>
    intro hres l hl
    obtain ⟨i, r, rfl, hi, hres'⟩ := resolves_cons.mp hres
    rcases List.mem_cons.mp hl with rfl | hl
    · exact ⟨i, by simp, hi⟩
    · obtain ⟨j, hj, hjl⟩ := ih hres' l hl
      exact ⟨j, by simp [hj], hjl⟩

theorem length_pos_of_ne_nil' {β : Type} {l : List β} (h : l ≠ []) : 1 ≤ l.length := by
  cases l with
  | nil => exact absurd rfl h
  | cons _ _ => simp

/-- **`extend` over a concatenated route = two successive `extend` calls** (all fields, and the same
    error/panic outcome).  The hypothesis is forced: on a fresh path (`grades.len() == 1`) a first
    part consisting only of one-elevation-point links leaves `grades.len() == 1`, so the second call
    would re-apply the initial elevation (`extend_append_counterexample`). -/
theorem extend_append (toU32 : α → Nat) (g : GeoConsts α) (net : List (Link α)) (t : Tpc α)
    (a b : List Nat)
    (h1 : t.grades.length = 1 → ∀ i ∈ a, ∀ l, net[i]? = some l → l.elevs.length ≠ 1) :
    extend toU32 g net t (a ++ b) =
      (extend toU32 g net t a).bind (fun t' => extend toU32 g net t' b) := by
  rw [extend_eq toU32 g net t (a ++ b), extend_eq toU32 g net t a]
  cases e1 : ensure (!t.linkPoints.isEmpty) "link-points-empty" with
  | err e => rfl
  | panic e => rfl
  | ok u1 =>
  cases e2 : ensure (!t.grades.isEmpty) "grades-empty" with
  | err e => rfl
  | panic e => rfl
  | ok u2 =>
  cases e3 : ensure (!t.curves.isEmpty) "curves-empty" with
  | err e => rfl
  | panic e => rfl
  | ok u3 =>
  cases e4 : ensure (!t.speedPoints.isEmpty) "speed-points-empty" with
  | err e => rfl
  | panic e => rfl
  | ok u4 =>
  have n1 := ensure_ok_ne_nil e1
  have n2 := ensure_ok_ne_nil e2
  have n3 := ensure_ok_ne_nil e3
  have n4 := ensure_ok_ne_nil e4
  simp only [bind_ok]
  cases a with
  | nil =>
    rw [List.nil_append, extendCore_nil, bind_ok, extend_of_ne_nil toU32 g net t b n1 n2 n3 n4]
  | cons i a' =>
    unfold extendCore
    rw [prelude_append]
    cases hp : prelude net t (i :: a') with
    | err e => rfl
    | panic e => rfl
    | ok t0 =>
    simp only [bind_ok]
    rw [foldR_append]
    cases hl : foldR (extendLinkPoint toU32 net) t0 (i :: a') with
    | err e => rfl
    | panic e => rfl
    | ok t1 =>
    simp only [bind_ok]
    obtain ⟨links, hres⟩ := lp_fold_resolves toU32 net _ _ _ hl
    obtain ⟨hw0, hlen0⟩ := prelude_writes net hp
    have hw1 := lp_fold_writes toU32 net _ _ _ hl
    have t0lp : t0.linkPoints = t.linkPoints := by rw [hw0]
    have t0sp : t0.speedPoints = t.speedPoints := by rw [hw0]
    have t0cu : t0.curves = t.curves := by rw [hw0]
    have t1gr : t1.grades = t0.grades := by rw [hw1]; rfl
    have t1cu : t1.curves = t0.curves := by rw [hw1]; rfl
    obtain ⟨m1, m2⟩ := lp_fold_ne_nil toU32 net _ _ _ hl (by rw [t0lp]; exact n1) (by rw [t0sp]; exact n4)
    have g1 : t1.grades ≠ [] := by
      intro h0; rw [t1gr] at h0; rw [h0] at hlen0; exact n2 (List.length_eq_zero_iff.mp hlen0.symm)
    have c1 : t1.curves ≠ [] := by rw [t1cu, t0cu]; exact n3
    obtain ⟨tA, hA, la, lc, lstrict⟩ := geo_fold_total g net links (i :: a') t1 hres g1 c1
    have hwA := geo_fold_writes g net _ _ _ hA
    have tAlp : tA.linkPoints = t1.linkPoints := by rw [hwA]; rfl
    have tAsp : tA.speedPoints = t1.speedPoints := by rw [hwA]; rfl
    have tApar : tA.par = t1.par := by rw [hwA]; rfl
    have tAfin : tA.isFinished = t1.isFinished := by rw [hwA]; rfl
    have gA : tA.grades ≠ [] := by
      intro h0; have := length_pos_of_ne_nil' g1; rw [h0, List.length_nil] at la; omega
    have cA : tA.curves ≠ [] := by
      intro h0; have := length_pos_of_ne_nil' c1; rw [h0, List.length_nil] at lc; omega
    have lenA : tA.grades.length ≠ 1 := by
      have hl1 : t1.grades.length = t.grades.length := by rw [t1gr, hlen0]
      by_cases ht : t.grades.length = 1
      · have hlinks : links ≠ [] := by
          intro h0; subst h0; exact absurd (resolves_nil.mp hres) (by simp)
        have := lstrict hlinks (fun l hl' => by
          obtain ⟨j, hj, hjl⟩ := resolves_mem hres l hl'
          exact h1 ht j hj l hjl)
        omega
      · have := length_pos_of_ne_nil' n2; omega
    rw [hA, bind_ok, extend_of_ne_nil toU32 g net tA b (by rw [tAlp]; exact m1) gA cA (by rw [tAsp]; exact m2)]
    unfold extendCore
    rw [prelude_of_len net tA b lenA, bind_ok, lp_frame toU32 net b t1 tA tAlp tAsp tApar, bind_rmap]
    cases h2 : foldR (extendLinkPoint toU32 net) t1 b with
    | err e => rfl
    | panic e => rfl
    | ok t2 =>
    simp only [bind_ok]
    have hw2 := lp_fold_writes toU32 net _ _ _ h2
    have t2gr : t2.grades = t1.grades := by rw [hw2]; rfl
    have t2cu : t2.curves = t1.curves := by rw [hw2]; rfl
    have t2ca : t2.cats = t1.cats := by rw [hw2]; rfl
    have t2par : t2.par = t1.par := by rw [hw2]; rfl
    have t2fin : t2.isFinished = t1.isFinished := by rw [hw2]; rfl
    rw [foldR_append, geo_frame g net (i :: a') t1 t2 t2gr t2cu t2ca t2par, hA]
    have : geoSet t2 tA = lpSet tA t2 := by
      cases t2; cases tA
      simp only [geoSet, lpSet] at *
      simp only [t2par, t2fin, tApar, tAfin]
    simp only [rmap, bind_ok, this]

/-- successive `extend` calls, one per part -/
def extendSeq (toU32 : α → Nat) (g : GeoConsts α) (net : List (Link α)) (t : Tpc α)
    (parts : List (List Nat)) : Res (Tpc α) :=
  foldR (extend toU32 g net) t parts

/-- any partition of a route into successive `extend` calls gives the outcome of the single call -/
theorem extendSeq_eq (toU32 : α → Nat) (g : GeoConsts α) (net : List (Link α))
    (hnet : ∀ l ∈ net, l.elevs.length ≠ 1) :
    ∀ (parts : List (List Nat)) (t : Tpc α), parts ≠ [] →
      extendSeq toU32 g net t parts = extend toU32 g net t parts.flatten := by
  intro parts
  induction parts with
  | nil => intro t h; exact absurd rfl h
  | cons p ps ih =>
    intro t _
    cases ps with
    | nil =>
      simp only [extendSeq, foldR_cons, foldR_nil, List.flatten_cons, List.flatten_nil, List.append_nil]
      exact bind_pure_ok _
    | cons q qs =>
      have happ := extend_append toU32 g net t p (q :: qs).flatten
        (fun _ i _ l hl => hnet l (List.mem_of_getElem? hl))
      rw [List.flatten_cons, happ]
      unfold extendSeq
      rw [foldR_cons]
      congr 1; funext t'
      exact ih t' (by simp)

/-! ### rejection, acceptance ⇒ contiguity -/

theorem prelude_ok_of_first (net : List (Link α)) (t : Tpc α) (idx : Nat) (rest : List Nat) (l : Link α)
    (hl : net[idx]? = some l) : ∃ t0, prelude net t (idx :: rest) = .ok t0 := by
  unfold prelude
  have h0 : getL (idx :: rest) 0 = .ok idx := getL_of_some (by simp)
  split_ifs
  · simp only [bind, h0, bind_ok, getL_of_some hl, pure]
    split <;> exact ⟨_, rfl⟩
  · exact ⟨_, rfl⟩

/-- the first link of a call is rejected with `Err` when it is fake or not linked to the link in
    front of it (the last link already in the path) -/
theorem extend_reject_first (toU32 : α → Nat) (g : GeoConsts α) (net : List (Link α)) (t : Tpc α)
    (idx : Nat) (rest : List Nat) (L : List (LinkPt α)) (last : LinkPt α) (l : Link α)
    (hL : t.linkPoints = L ++ [last]) (hg : t.grades ≠ []) (hc : t.curves ≠ [])
    (hs : t.speedPoints ≠ []) (hl : net[idx]? = some l)
    (hbad : idx = 0 ∨ linkedOpt (L.getLast?.map (·.linkIdx)) l = false) :
    ∃ tag, extend toU32 g net t (idx :: rest) = .err tag := by
  rw [extend_of_ne_nil toU32 g net t _ (by rw [hL]; simp) hg hc hs]
  unfold extendCore
  obtain ⟨t0, ht0⟩ := prelude_ok_of_first net t idx rest l hl
  obtain ⟨hw0, _⟩ := prelude_writes net ht0
  have t0lp : t0.linkPoints = L ++ [last] := by rw [hw0]; exact hL
  rw [ht0, bind_ok, foldR_cons, extendLinkPoint_eq]
  by_cases h0 : idx = 0
  · subst h0; exact ⟨_, rfl⟩
  · have hi : (idx != 0) = true := by simpa using h0
    rcases hbad with hbad | hbad
    · exact absurd hbad h0
    · obtain ⟨tag, htag⟩ := (contigChecks_eq L last l).2 hbad
      rw [hi, ensure_true, bind_ok, getL_of_some hl, bind_ok, t0lp, lastR_append_singleton, bind_ok, htag]
      exact ⟨tag, rfl⟩

/-- an accepted `extend` leaves the four vectors non-empty -/
theorem extend_ok_ne_nil (toU32 : α → Nat) (g : GeoConsts α) (net : List (Link α)) {t t' : Tpc α}
    {p : List Nat} (h : extend toU32 g net t p = .ok t') :
    t'.linkPoints ≠ [] ∧ t'.grades ≠ [] ∧ t'.curves ≠ [] ∧ t'.speedPoints ≠ [] := by
  rw [extend_eq] at h
  obtain ⟨_, e1, h⟩ := bind_eq_ok.mp h
  obtain ⟨_, e2, h⟩ := bind_eq_ok.mp h
  obtain ⟨_, e3, h⟩ := bind_eq_ok.mp h
  obtain ⟨_, e4, h⟩ := bind_eq_ok.mp h
  have n1 := ensure_ok_ne_nil e1
  have n2 := ensure_ok_ne_nil e2
  have n3 := ensure_ok_ne_nil e3
  have n4 := ensure_ok_ne_nil e4
  unfold extendCore at h
  obtain ⟨t0, hp, h⟩ := bind_eq_ok.mp h
  obtain ⟨t1, hl, h⟩ := bind_eq_ok.mp h
  obtain ⟨links, hres⟩ := lp_fold_resolves toU32 net _ _ _ hl
  obtain ⟨hw0, hlen0⟩ := prelude_writes net hp
  have hw1 := lp_fold_writes toU32 net _ _ _ hl
  have t0lp : t0.linkPoints = t.linkPoints := by rw [hw0]
  have t0sp : t0.speedPoints = t.speedPoints := by rw [hw0]
  have t0cu : t0.curves = t.curves := by rw [hw0]
  have t1gr : t1.grades = t0.grades := by rw [hw1]; rfl
  have t1cu : t1.curves = t0.curves := by rw [hw1]; rfl
  obtain ⟨m1, m2⟩ := lp_fold_ne_nil toU32 net _ _ _ hl (by rw [t0lp]; exact n1) (by rw [t0sp]; exact n4)
  have g1 : t1.grades ≠ [] := by
    intro h0; rw [t1gr] at h0; rw [h0] at hlen0; exact n2 (List.length_eq_zero_iff.mp hlen0.symm)
  have c1 : t1.curves ≠ [] := by rw [t1cu, t0cu]; exact n3
  obtain ⟨tA, hA, la, lc, _⟩ := geo_fold_total g net links p t1 hres g1 c1
  rw [hA] at h; cases h
  have hwA := geo_fold_writes g net _ _ _ hA
  have tAlp : t'.linkPoints = t1.linkPoints := by rw [hwA]; rfl
  have tAsp : t'.speedPoints = t1.speedPoints := by rw [hwA]; rfl
  refine ⟨by rw [tAlp]; exact m1, ?_, ?_, by rw [tAsp]; exact m2⟩
  · intro h0; have := length_pos_of_ne_nil' g1; rw [h0, List.length_nil] at la; omega
  · intro h0; have := length_pos_of_ne_nil' c1; rw [h0, List.length_nil] at lc; omega

/-- one loop-1 step on a fake or unlinked (in-range) link is an `Err` -/
theorem extendLinkPoint_reject (toU32 : α → Nat) (net : List (Link α)) (s : Tpc α) (idx : Nat)
    (L : List (LinkPt α)) (last : LinkPt α) (l : Link α) (hL : s.linkPoints = L ++ [last])
    (hl : net[idx]? = some l)
    (hbad : idx = 0 ∨ linkedOpt (L.getLast?.map (·.linkIdx)) l = false) :
    ∃ tag, extendLinkPoint toU32 net s idx = .err tag := by
  rw [extendLinkPoint_eq]
  by_cases h0 : idx = 0
  · subst h0; exact ⟨_, rfl⟩
  · have hi : (idx != 0) = true := by simpa using h0
    rcases hbad with hbad | hbad
    · exact absurd hbad h0
    · obtain ⟨tag, htag⟩ := (contigChecks_eq L last l).2 hbad
      rw [hi, ensure_true, bind_ok, getL_of_some hl, bind_ok, hL, lastR_append_singleton, bind_ok, htag]
      exact ⟨tag, rfl⟩

/-- a link in the middle of a route: if everything before it is accepted, the link is in range, and it
    is fake or not linked to its predecessor, the whole call returns `Err`.  No hypothesis on the
    links. -/
theorem extend_reject_mid (toU32 : α → Nat) (g : GeoConsts α) (net : List (Link α)) (t t1 : Tpc α)
    (pre : List Nat) (idx : Nat) (rest : List Nat) (L : List (LinkPt α)) (last : LinkPt α) (l : Link α)
    (hpre : extend toU32 g net t pre = .ok t1) (hL : t1.linkPoints = L ++ [last])
    (hl : net[idx]? = some l)
    (hbad : idx = 0 ∨ linkedOpt (L.getLast?.map (·.linkIdx)) l = false) :
    ∃ tag, extend toU32 g net t (pre ++ idx :: rest) = .err tag := by
  have hpre' := hpre
  rw [extend_eq] at hpre'
  obtain ⟨_, e1, hpre'⟩ := bind_eq_ok.mp hpre'
  obtain ⟨_, e2, hpre'⟩ := bind_eq_ok.mp hpre'
  obtain ⟨_, e3, hpre'⟩ := bind_eq_ok.mp hpre'
  obtain ⟨_, e4, hpre'⟩ := bind_eq_ok.mp hpre'
  rw [extend_of_ne_nil toU32 g net t _ (ensure_ok_ne_nil e1) (ensure_ok_ne_nil e2)
    (ensure_ok_ne_nil e3) (ensure_ok_ne_nil e4)]
  unfold extendCore at hpre' ⊢
  obtain ⟨t0, hp, hpre'⟩ := bind_eq_ok.mp hpre'
  obtain ⟨t1', hlp, hgeo⟩ := bind_eq_ok.mp hpre'
  have hw0 := (prelude_writes net hp).1
  have hwg := geo_fold_writes g net _ _ _ hgeo
  have t1lp : t1'.linkPoints = L ++ [last] := by
    rw [← hL, hwg]; rfl
  -- the prelude of the long call
  obtain ⟨t0', hp', hsame⟩ : ∃ t0', prelude net t (pre ++ idx :: rest) = .ok t0' ∧
      t0'.linkPoints = t0.linkPoints ∧ t0'.speedPoints = t0.speedPoints ∧ t0'.par = t0.par := by
    cases pre with
    | nil =>
      obtain ⟨t0', h⟩ := prelude_ok_of_first net t idx rest l hl
      have hw := (prelude_writes net h).1
      refine ⟨t0', h, ?_, ?_, ?_⟩
      · rw [hw, hw0]
      · rw [hw, hw0]
      · rw [hw, hw0]
    | cons i pre' =>
      exact ⟨t0, by rw [prelude_append]; exact hp, rfl, rfl, rfl⟩
  rw [hp', bind_ok, foldR_append, lp_frame toU32 net pre t0 t0' hsame.1 hsame.2.1 hsame.2.2, hlp]
  simp only [rmap, bind_ok]
  rw [foldR_cons]
  obtain ⟨tag, htag⟩ := extendLinkPoint_reject toU32 net (lpSet t0' t1') idx L last l t1lp hl hbad
  rw [htag]
  exact ⟨tag, rfl⟩

/-- an accepted call passed every fake-index and contiguity check -/
theorem extend_ok_contig (toU32 : α → Nat) (g : GeoConsts α) (net : List (Link α)) {t t' : Tpc α}
    {route : List Nat} {links : List (Link α)} {L : List (LinkPt α)} {last : LinkPt α}
    (h : extend toU32 g net t route = .ok t') (hres : Resolves net route links)
    (hL : t.linkPoints = L ++ [last]) :
    (∀ i ∈ route, i ≠ 0) ∧ contig (L.getLast?.map (·.linkIdx)) links = true := by
  rw [extend_eq] at h
  obtain ⟨_, e1, h⟩ := bind_eq_ok.mp h
  obtain ⟨_, e2, h⟩ := bind_eq_ok.mp h
  obtain ⟨_, e3, h⟩ := bind_eq_ok.mp h
  obtain ⟨_, e4, h⟩ := bind_eq_ok.mp h
  unfold extendCore at h
  obtain ⟨t0, hp, h⟩ := bind_eq_ok.mp h
  obtain ⟨t1, hl, h⟩ := bind_eq_ok.mp h
  obtain ⟨hw0, _⟩ := prelude_writes net hp
  have t0lp : t0.linkPoints = L ++ [last] := by rw [hw0]; exact hL
  obtain ⟨a, b, _⟩ := (lp_fold_ok_iff toU32 net links route t0 t1 L last hres t0lp).mp hl
  exact ⟨a, b⟩

/-- the link points (and the speed part) of an accepted call; no hypothesis on the links -/
theorem extend_ok_linkPoints (toU32 : α → Nat) (g : GeoConsts α) (net : List (Link α)) {t t' : Tpc α}
    {route : List Nat} {links : List (Link α)} {L : List (LinkPt α)} {last : LinkPt α}
    (h : extend toU32 g net t route = .ok t') (hres : Resolves net route links)
    (hL : t.linkPoints = L ++ [last]) :
    t'.linkPoints = L ++ routeLPs last links ∧
      routeSpeeds toU32 t.par t.speedPoints last.off links = .ok t'.speedPoints := by
  rw [extend_eq] at h
  obtain ⟨_, e1, h⟩ := bind_eq_ok.mp h
  obtain ⟨_, e2, h⟩ := bind_eq_ok.mp h
  obtain ⟨_, e3, h⟩ := bind_eq_ok.mp h
  obtain ⟨_, e4, h⟩ := bind_eq_ok.mp h
  unfold extendCore at h
  obtain ⟨t0, hp, h⟩ := bind_eq_ok.mp h
  obtain ⟨t1, hl, h⟩ := bind_eq_ok.mp h
  obtain ⟨hw0, _⟩ := prelude_writes net hp
  have t0lp : t0.linkPoints = L ++ [last] := by rw [hw0]; exact hL
  have t0sp : t0.speedPoints = t.speedPoints := by rw [hw0]
  have t0par : t0.par = t.par := by rw [hw0]
  obtain ⟨_, _, sp, hsp, rfl⟩ := (lp_fold_ok_iff toU32 net links route t0 t1 L last hres t0lp).mp hl
  have hw := geo_fold_writes g net _ _ _ h
  rw [t0sp, t0par] at hsp
  constructor
  · rw [hw]; rfl
  · rw [hw]; exact hsp

/-- **acceptance** of a resolved route, from any state with non-empty vectors; no hypothesis on the
    links (loop 2 cannot fail once loop 1 has succeeded) -/
theorem extend_accept_iff (toU32 : α → Nat) (g : GeoConsts α) (net : List (Link α)) (t : Tpc α)
    (route : List Nat) (links : List (Link α)) (L : List (LinkPt α)) (last : LinkPt α)
    (hres : Resolves net route links) (hL : t.linkPoints = L ++ [last])
    (hg : t.grades ≠ []) (hc : t.curves ≠ []) (hs : t.speedPoints ≠ []) :
    (∃ t', extend toU32 g net t route = .ok t') ↔
      (∀ i ∈ route, i ≠ 0) ∧ contig (L.getLast?.map (·.linkIdx)) links = true ∧
      ∃ sp, routeSpeeds toU32 t.par t.speedPoints last.off links = .ok sp := by
  constructor
  · rintro ⟨t', h⟩
    obtain ⟨a, b⟩ := extend_ok_contig toU32 g net h hres hL
    exact ⟨a, b, _, (extend_ok_linkPoints toU32 g net h hres hL).2⟩
  · rintro ⟨h0, hcon, sp, hsp⟩
    rw [extend_of_ne_nil toU32 g net t route (by rw [hL]; simp) hg hc hs]
    unfold extendCore
    obtain ⟨t0, hp⟩ : ∃ t0, prelude net t route = .ok t0 := by
      cases links with
      | nil => rw [resolves_nil.mp hres]; exact ⟨t, prelude_nil net t⟩
      | cons l ls =>
        obtain ⟨i, r, rfl, hl, _⟩ := resolves_cons.mp hres
        exact prelude_ok_of_first net t i r l hl
    obtain ⟨hw0, hlen0⟩ := prelude_writes net hp
    have t0lp : t0.linkPoints = L ++ [last] := by rw [hw0]; exact hL
    have t0sp : t0.speedPoints = t.speedPoints := by rw [hw0]
    have t0par : t0.par = t.par := by rw [hw0]
    have t0cu : t0.curves = t.curves := by rw [hw0]
    have h1 := (lp_fold_ok_iff toU32 net links route t0 _ L last hres t0lp).mpr
      ⟨h0, hcon, sp, by rw [t0sp, t0par]; exact hsp, rfl⟩
    rw [hp, bind_ok, h1, bind_ok]
    have g1 : t0.grades ≠ [] := by
      intro h; rw [h] at hlen0; exact hg (List.length_eq_zero_iff.mp hlen0.symm)
    obtain ⟨s', hs', _⟩ := geo_fold_total g net links route
      { t0 with speedPoints := sp, linkPoints := L ++ routeLPs last links } hres g1
      (by rw [show ({ t0 with speedPoints := sp, linkPoints := L ++ routeLPs last links } : Tpc α).curves
        = t0.curves from rfl, t0cu]; exact hc)
    exact ⟨s', hs'⟩

/-- `contig` spelled out: the first link against `prev`, then every consecutive pair -/
theorem contig_iff : ∀ (links : List (Link α)) (prev : Option Nat),
    contig prev links = true ↔
      (∀ l, links.head? = some l → linkedOpt prev l = true) ∧
      links.IsChain (fun a b => linked a.idxCurr b = true)
  | [], prev => by simp [contig]
  | [l], prev => by simp [contig]
  | l :: l' :: ls, prev => by
    rw [contig, Bool.and_eq_true, contig_iff (l' :: ls), List.isChain_cons_cons]
    simp [linkedOpt]

end defs

/-! ## Over an ordered field -/

section field
variable {α : Type} [Field α] [LinearOrder α] [IsStrictOrderedRing α]

/-! ### loop 2 (geometry): closed forms, `extend_ok_iff` -/

theorem pushGrades_eq (b n0 e0 : α) : ∀ (t : List (Elev α)) (p c e : Elev α) (G : List (PRC α)) (c0 : α),
    (p :: c :: t).getLast? = some e →
    pushGrades (G ++ [⟨b + p.off, c0, n0 + (p.elev - e0)⟩]) b (n0 + (p.elev - e0)) (p :: c :: t)
      = (G ++ segGrades b n0 e0 (p :: c :: t) ++ [⟨b + e.off, 0, n0 + (e.elev - e0)⟩],
          n0 + (e.elev - e0)) := by
  intro t
  induction t with
  | nil =>
    intro p c e G c0 he
    simp only [List.getLast?_cons_cons, List.getLast?_singleton, Option.some.injEq] at he
    subst he
    have hn : n0 + (p.elev - e0) + c.elev - p.elev = n0 + (c.elev - e0) := by ring
    simp only [pushGrades, setLast_append_singleton, segGrades, hn, List.append_assoc, List.cons_append, List.nil_append]
  | cons d t ih =>
    intro p c e G c0 he
    rw [List.getLast?_cons_cons] at he
    have hn : n0 + (p.elev - e0) + c.elev - p.elev = n0 + (c.elev - e0) := by ring
    rw [pushGrades, setLast_append_singleton, hn, segGrades]
    have := ih c d e (G ++ [⟨b + p.off, (c.elev - p.elev) / (c.off - p.off), n0 + (p.elev - e0)⟩]) 0 he
    simp only [List.append_assoc, List.cons_append, List.nil_append] at this ⊢
    exact this

theorem pushCurves_eq (g : GeoConsts α) (par : TrainPar α) (b : α) :
    ∀ (t : List (Heading α)) (p c e : Heading α) (C : List (PRC α)) (c0 n : α),
    (p :: c :: t).getLast? = some e →
    pushCurves g par (C ++ [⟨b + p.off, c0, n⟩]) b n (p :: c :: t)
      = (C ++ segCurves g par b n (p :: c :: t) ++ [⟨b + e.off, 0, curvesNet g par n (p :: c :: t)⟩],
          curvesNet g par n (p :: c :: t)) := by
  intro t
  induction t with
  | nil =>
    intro p c e C c0 n he
    simp only [List.getLast?_cons_cons, List.getLast?_singleton, Option.some.injEq] at he
    subst he
    simp only [pushCurves, setLast_append_singleton, segCurves, curvesNet, List.append_assoc, List.cons_append, List.nil_append]
  | cons d t ih =>
    intro p c e C c0 n he
    rw [List.getLast?_cons_cons] at he
    rw [pushCurves, setLast_append_singleton, segCurves, curvesNet]
    have := ih c d e (C ++ [⟨b + p.off, curveCoeff g par (c.heading - p.heading) (c.off - p.off), n⟩]) 0
      (n + curveCoeff g par (c.heading - p.heading) (c.off - p.off) * (c.off - p.off)) he
    simp only [List.append_assoc, List.cons_append, List.nil_append] at this ⊢
    exact this

theorem elevLast_of_getLast? : ∀ (l : List (Elev α)) (e : Elev α), l.getLast? = some e → elevLast l = e.elev
  | [], e, h => by simp at h
  | [p], e, h => by simp at h; subst h; rfl
  | p :: c :: t, e, h => by
    rw [List.getLast?_cons_cons] at h
    rw [elevLast]; exact elevLast_of_getLast? (c :: t) e h

/-- destructuring of an offset list accepted by `Link::validate` -/
theorem two_pts {β : Type} (off : β → α) (l : List β) (len : α) (h2 : 2 ≤ l.length)
    (h0 : l.head?.map off = some 0) (hl : l.getLast?.map off = some len) :
    ∃ p c t e, l = p :: c :: t ∧ off p = 0 ∧ (p :: c :: t).getLast? = some e ∧ off e = len := by
  match l, h2 with
  | p :: c :: t, _ =>
    simp only [List.head?_cons, Option.map_some, Option.some.injEq] at h0
    rcases h : (p :: c :: t).getLast? with _ | e
    · simp at h
    · rw [h] at hl; simp only [Option.map_some, Option.some.injEq] at hl
      exact ⟨p, c, t, e, rfl, h0, h, hl⟩

theorem extendGeometry_ok (g : GeoConsts α) (net : List (Link α)) (t : Tpc α) (idx : Nat) (l : Link α)
    (hl : net[idx]? = some l) (ok : LinkOK l)
    (G C : List (PRC α)) (b cg ng cc nc : α)
    (hG : t.grades = G ++ [⟨b, cg, ng⟩]) (hC : t.curves = C ++ [⟨b, cc, nc⟩]) :
    extendGeometry g net t idx = .ok { t with
      grades := G ++ segGrades b ng (elevFirst l.elevs) l.elevs ++
        [⟨b + l.length, 0, ng + (elevLast l.elevs - elevFirst l.elevs)⟩],
      curves := C ++ (if l.headings.isEmpty then [⟨b, cc, nc⟩] else segCurves g t.par b nc l.headings) ++
        [⟨b + l.length, 0, curvesNet g t.par nc l.headings⟩],
      cats := t.cats ++ l.cats.map (shiftCat b) } := by
  obtain ⟨p, c, es, e, hes, hp0, hlast, helen⟩ :=
    two_pts (·.off) l.elevs l.length ok.elev_two ok.elev_first ok.elev_last
  unfold extendGeometry
  simp only [bind, pure, getL_of_some hl, bind_ok, hG, hC, lastR_append_singleton]
  have hgr : (pushGrades (G ++ [⟨b, cg, ng⟩]) b ng l.elevs).1 =
      G ++ segGrades b ng (elevFirst l.elevs) l.elevs ++
        [⟨b + l.length, 0, ng + (elevLast l.elevs - elevFirst l.elevs)⟩] := by
    have := pushGrades_eq b ng p.elev es p c e G cg hlast
    rw [hp0, add_zero, sub_self, add_zero] at this
    rw [hes, this, elevLast_of_getLast? _ _ hlast, helen]; rfl
  have hcu : (if l.headings.isEmpty then C ++ [⟨b, cc, nc⟩] ++ [⟨b + l.length, 0, nc⟩]
      else (pushCurves g t.par (C ++ [⟨b, cc, nc⟩]) b nc l.headings).1) =
      C ++ (if l.headings.isEmpty then [⟨b, cc, nc⟩] else segCurves g t.par b nc l.headings) ++
        [⟨b + l.length, 0, curvesNet g t.par nc l.headings⟩] := by
    rcases ok.head_ok with hh | ⟨h2, _, h0, hlen⟩
    · rw [hh]; simp [curvesNet]
    · obtain ⟨p', c', hs, e', hhs, hp0', hlast', helen'⟩ := two_pts (·.off) l.headings l.length h2 h0 hlen
      have := pushCurves_eq g t.par b hs p' c' e' C cc nc hlast'
      rw [hp0', add_zero] at this
      rw [hhs, this, helen']; simp
  have hne : l.elevs.isEmpty = false := by rw [hes]; rfl
  simp only [hne, Bool.false_eq_true, if_false, hgr, hcu]
  rfl

/-- loop 2 on a resolved route of validated links never fails; closed form of the three profiles -/
theorem geo_fold (g : GeoConsts α) (net : List (Link α)) :
    ∀ (links : List (Link α)) (route : List Nat) (t : Tpc α) (G C : List (PRC α)) (b cg ng cc nc : α),
    Resolves net route links → (∀ l ∈ links, LinkOK l) →
    t.grades = G ++ [⟨b, cg, ng⟩] → t.curves = C ++ [⟨b, cc, nc⟩] →
    foldR (extendGeometry g net) t route = .ok { t with
      grades := G ++ routeGrades b cg ng links,
      curves := C ++ routeCurves g t.par b cc nc links,
      cats := t.cats ++ routeCats b links } := by
  intro links
  induction links with
  | nil =>
    intro route t G C b cg ng cc nc hres _ hG hC
    rw [resolves_nil] at hres; subst hres
    cases t; simp only at hG hC; subst hG hC
    simp [foldR_nil, routeGrades, routeCurves, routeCats]
  | cons l ls ih =>
    intro route t G C b cg ng cc nc hres hok hG hC
    obtain ⟨i, r, rfl, hl, hres'⟩ := resolves_cons.mp hres
    rw [foldR_cons, extendGeometry_ok g net t i l hl (hok l (by simp)) G C b cg ng cc nc hG hC, bind_ok]
    rw [ih r _ _ _ (b + l.length) 0 _ 0 _ hres' (fun x hx => hok x (by simp [hx])) rfl rfl]
    simp [routeGrades, routeCurves, routeCats]

theorem LinkOK.elevs_ne_nil {l : Link α} (h : LinkOK l) : l.elevs ≠ [] := by
  intro h0; have := h.elev_two; rw [h0] at this; simp at this

/-- **closed form of one `extend` call** on a resolved route of validated links, from any state whose
    three profiles end in a terminal point -/
theorem extend_ok_iff (toU32 : α → Nat) (g : GeoConsts α) (net : List (Link α))
    (route : List Nat) (links : List (Link α)) (t t' : Tpc α)
    (L : List (LinkPt α)) (last : LinkPt α) (G C : List (PRC α)) (b cg ng cc nc : α)
    (hres : Resolves net route links) (hok : ∀ l ∈ links, LinkOK l)
    (hL : t.linkPoints = L ++ [last]) (hG : t.grades = G ++ [⟨b, cg, ng⟩])
    (hC : t.curves = C ++ [⟨b, cc, nc⟩]) (hS : t.speedPoints ≠ []) :
    extend toU32 g net t route = .ok t' ↔
      (∀ i ∈ route, i ≠ 0) ∧ contig (L.getLast?.map (·.linkIdx)) links = true ∧
      ∃ sp, routeSpeeds toU32 t.par t.speedPoints last.off links = .ok sp ∧
        t' = { linkPoints := L ++ routeLPs last links,
               grades := G ++ routeGrades b cg (initNet G ng links) links,
               curves := C ++ routeCurves g t.par b cc nc links,
               speedPoints := sp,
               cats := t.cats ++ routeCats b links,
               par := t.par, isFinished := t.isFinished } := by
  have e1 : ensure (!t.linkPoints.isEmpty) "link-points-empty" = .ok () := by rw [hL]; simp [ensure]
  have e2 : ensure (!t.grades.isEmpty) "grades-empty" = .ok () := by rw [hG]; simp [ensure]
  have e3 : ensure (!t.curves.isEmpty) "curves-empty" = .ok () := by rw [hC]; simp [ensure]
  have e4 : ensure (!t.speedPoints.isEmpty) "speed-points-empty" = .ok () := by
    cases hsp : t.speedPoints with
    | nil => exact absurd hsp hS
    | cons _ _ => simp [ensure]
  rw [extend_eq, e1, e2, e3, e4]
  simp only [bind_ok]
  unfold extendCore
  rw [prelude_ok net t route links G b cg ng hres (fun l hl => (hok l hl).elevs_ne_nil) hG, bind_ok,
    bind_eq_ok]
  have hgeo : ∀ sp : List (Pt α), foldR (extendGeometry g net)
      { linkPoints := L ++ routeLPs last links, grades := G ++ [⟨b, cg, initNet G ng links⟩],
        curves := t.curves, speedPoints := sp, cats := t.cats, par := t.par,
        isFinished := t.isFinished } route = .ok
      { linkPoints := L ++ routeLPs last links,
        grades := G ++ routeGrades b cg (initNet G ng links) links,
        curves := C ++ routeCurves g t.par b cc nc links,
        speedPoints := sp, cats := t.cats ++ routeCats b links,
        par := t.par, isFinished := t.isFinished } := fun sp =>
    geo_fold g net links route _ G C b cg (initNet G ng links) cc nc hres hok rfl hC
  have hlp := fun t1 => lp_fold_ok_iff toU32 net links route
    { t with grades := G ++ [⟨b, cg, initNet G ng links⟩] } t1 L last hres hL
  dsimp only at hlp
  constructor
  · rintro ⟨t1, h1, h2⟩
    obtain ⟨h0, hcon, sp, hsp, rfl⟩ := (hlp t1).mp h1
    refine ⟨h0, hcon, sp, hsp, ?_⟩
    rw [hgeo sp] at h2
    exact (Res.ok.inj h2).symm
  · rintro ⟨h0, hcon, sp, hsp, rfl⟩
    exact ⟨_, (hlp _).mpr ⟨h0, hcon, sp, hsp, rfl⟩, hgeo sp⟩

theorem routeLPs_off : ∀ (links : List (Link α)) (last : LinkPt α),
    (routeLPs last links).map (·.off) = prefixOffs last.off links
  | [], _ => rfl
  | l :: ls, last => by
    simp only [routeLPs, List.map_cons, prefixOffs, lpOf_off, routeLPs_off ls, add_comm l.length]

theorem lpsBody_off : ∀ (links : List (Link α)) (b : α),
    (lpsBody b links).map (·.off) = (prefixOffs b links).dropLast
  | [], _ => rfl
  | l :: ls, b => by
    have : prefixOffs (b + l.length) ls ≠ [] := by cases ls <;> simp [prefixOffs]
    simp only [lpsBody, List.map_cons, lpOf_off, prefixOffs, List.dropLast_cons_of_ne_nil this,
      lpsBody_off ls, add_comm l.length]

theorem prefixOffs_getLast : ∀ (links : List (Link α)) (b : α),
    (prefixOffs b links).getLast? = some (b + routeLen links)
  | [], b => by simp [prefixOffs, routeLen]
  | l :: ls, b => by
    have : prefixOffs (b + l.length) ls ≠ [] := by cases ls <;> simp [prefixOffs]
    obtain ⟨x, xs, hx⟩ := List.exists_cons_of_ne_nil this
    rw [prefixOffs, hx, List.getLast?_cons_cons, ← hx, prefixOffs_getLast ls, routeLen, add_assoc]

/-- the trailing dummy link point of a non-empty route -/
theorem routeLPs_getLast : ∀ (links : List (Link α)) (last : LinkPt α), links ≠ [] →
    (routeLPs last links).getLast? = some ⟨last.off + routeLen links, 0, 0, 0, 0⟩
  | [], _, h => absurd rfl h
  | [l], last, _ => by simp [routeLPs, routeLen, add_comm]
  | l :: l' :: ls, last, _ => by
    have := routeLPs_getLast (l' :: ls) ⟨l.length + last.off, 0, 0, 0, 0⟩ (by simp)
    have hne := routeLPs_ne_nil (⟨l.length + last.off, 0, 0, 0, 0⟩ : LinkPt α) (l' :: ls)
    obtain ⟨x, xs, hx⟩ := List.exists_cons_of_ne_nil hne
    rw [routeLPs, hx, List.getLast?_cons_cons, ← hx, this]
    simp only [routeLen]; congr 2; ring

theorem gradeCount_ok {l : Link α} (h : LinkOK l) : max l.elevs.length 2 - 1 = l.elevs.length - 1 := by
  have := h.elev_two; omega

theorem curveCount_ok {l : Link α} (h : LinkOK l) :
    max l.headings.length 2 - 1 = if l.headings.isEmpty then 1 else l.headings.length - 1 := by
  rcases h.head_ok with h0 | ⟨h2, _⟩
  · rw [h0]; rfl
  · have : l.headings.isEmpty = false := by
      cases hh : l.headings with
      | nil => rw [hh] at h2; simp at h2
      | cons _ _ => rfl
    rw [this]; simp only [Bool.false_eq_true, if_false]; omega

/-- the count cross-checks are preserved by the closed forms of one `extend` call -/
theorem counts_closed (g : GeoConsts α) (links : List (Link α)) (hok : ∀ l ∈ links, LinkOK l)
    (L : List (LinkPt α)) (last : LinkPt α) (G C : List (PRC α)) (gl cl : PRC α)
    (K : List (CatLim α)) (sp sp' : List (Pt α)) (par : TrainPar α) (fin : Bool) (b cg n cc nc : α)
    (h : countsConsistent (⟨L ++ [last], G ++ [gl], C ++ [cl], sp, K, par, fin⟩ : Tpc α) = true) :
    countsConsistent (⟨L ++ routeLPs last links, G ++ routeGrades b cg n links,
      C ++ routeCurves g par b cc nc links, sp', K ++ routeCats b links, par, fin⟩ : Tpc α) = true := by
  have s1 : links.map (fun l => max l.elevs.length 2 - 1) = links.map (fun l => l.elevs.length - 1) :=
    List.map_congr_left fun l hl => gradeCount_ok (hok l hl)
  have s2 : links.map (fun l => max l.headings.length 2 - 1) =
      links.map (fun l => if l.headings.isEmpty then 1 else l.headings.length - 1) :=
    List.map_congr_left fun l hl => curveCount_ok (hok l hl)
  simp only [countsConsistent, List.dropLast_concat, Bool.and_eq_true, beq_iff_eq, foldl_count,
    List.length_append, List.length_singleton, Nat.zero_add] at h
  have hd : (L ++ routeLPs last links).dropLast = L ++ lpsBody last.off links := by
    rw [List.dropLast_append_of_ne_nil (routeLPs_ne_nil last links), routeLPs_dropLast]
  simp only [countsConsistent, hd,
    Bool.and_eq_true, beq_iff_eq, foldl_count, List.length_append, List.map_append, List.sum_append,
    lpsBody_gradeCount, lpsBody_curveCount, lpsBody_catCount, routeGrades_length, routeCurves_length,
    routeCats_length, s1, s2, Nat.zero_add]
  omega

/-! ### the grade profile is the route elevation -/

/-- `a`, `a'` are neighbouring profile points inside `[lo, hi]` and `a` represents `f` on the
    closed segment between them -/
def SegB (lo hi : α) (f : α → α) (a a' : PRC α) : Prop :=
  lo ≤ a.off ∧ a.off < a'.off ∧ a'.off ≤ hi ∧ ∀ x, a.off ≤ x → x ≤ a'.off → prcVal a x = f x

theorem linkElev_cons_cons (p c : Elev α) (t : List (Elev α)) (x : α) :
    linkElev (p :: c :: t) x =
      if x ≤ c.off then p.elev + (c.elev - p.elev) / (c.off - p.off) * (x - p.off)
      else linkElev (c :: t) x := by
  rw [linkElev]

theorem linkElev_head (p : Elev α) (es : List (Elev α))
    (h : (p :: es).IsChain (fun p c => p.off < c.off)) : linkElev (p :: es) p.off = p.elev := by
  cases es with
  | nil => rfl
  | cons c t =>
    rw [List.isChain_cons_cons] at h
    rw [linkElev_cons_cons, if_pos (le_of_lt h.1), sub_self, mul_zero, add_zero]

theorem segGrades_chain (b n e0 : α) : ∀ (es : List (Elev α)) (p e : Elev α) (T : PRC α),
    es ≠ [] → (p :: es).IsChain (fun p c => p.off < c.off) → (p :: es).getLast? = some e →
    T.off = b + e.off →
    List.IsChain (SegB (b + p.off) (b + e.off) (fun x => n + (linkElev (p :: es) (x - b) - e0)))
      (segGrades b n e0 (p :: es) ++ [T]) := by
  intro es
  induction es with
  | nil => intro p e T h; exact absurd rfl h
  | cons c t ih =>
    intro p e T _ hch he hT
    rw [List.isChain_cons_cons] at hch
    obtain ⟨hpc, hch'⟩ := hch
    rw [List.getLast?_cons_cons] at he
    have hval : ∀ x, b + p.off ≤ x → x ≤ b + c.off →
        prcVal (⟨b + p.off, (c.elev - p.elev) / (c.off - p.off), n + (p.elev - e0)⟩ : PRC α) x =
          n + (linkElev (p :: c :: t) (x - b) - e0) := by
      intro x _ hx2
      rw [linkElev_cons_cons, if_pos (by linarith)]
      simp only [prcVal]; ring
    cases t with
    | nil =>
      simp only [List.getLast?_singleton, Option.some.injEq] at he
      subst he
      simp only [segGrades, List.cons_append, List.nil_append, List.isChain_cons_cons,
        List.isChain_singleton, and_true]
      exact ⟨le_refl _, by rw [hT]; linarith, by rw [hT], by rw [hT]; exact hval⟩
    | cons d t' =>
      have ih' := ih c e T (by simp) hch' he hT
      rw [segGrades, List.cons_append]
      obtain ⟨X, Y, hXY⟩ : ∃ X Y, segGrades b n e0 (c :: d :: t') ++ [T] = X :: Y := by
        rw [segGrades]; exact ⟨_, _, rfl⟩
      have hX : X.off = b + c.off := by
        rw [segGrades, List.cons_append] at hXY
        rw [← (List.cons.inj hXY).1]
      rw [hXY] at ih' ⊢
      rw [List.isChain_cons_cons]
      have hchi : b + c.off ≤ b + e.off := by
        cases Y with
        | nil =>
          rw [segGrades] at hXY; simp at hXY
        | cons Z Y' =>
          rw [List.isChain_cons_cons] at ih'
          have := ih'.1
          unfold SegB at this
          rw [hX] at this
          linarith [this.2.1, this.2.2.1]
      refine ⟨⟨le_refl _, by rw [hX]; linarith, by rw [hX]; exact hchi, by rw [hX]; exact hval⟩, ?_⟩
      refine ih'.imp ?_
      rintro a a' ⟨h1, h2, h3, h4⟩
      refine ⟨by linarith, h2, h3, ?_⟩
      intro x hx1 hx2
      rw [h4 x hx1 hx2]
      dsimp only
      rw [linkElev_cons_cons p c (d :: t')]
      have hxc : c.off ≤ x - b := by linarith
      rcases eq_or_lt_of_le hxc with heq | hlt
      · rw [if_pos (le_of_eq heq.symm), ← heq, linkElev_head c (d :: t') hch']
        have : c.off - p.off ≠ 0 := by linarith [sub_pos.mpr hpc] |> ne_of_gt
        field_simp
        ring
      · rw [if_neg (not_le.mpr hlt)]

theorem linkElev_last : ∀ (es : List (Elev α)) (p e : Elev α),
    (p :: es).IsChain (fun p c => p.off < c.off) → (p :: es).getLast? = some e →
    p.off ≤ e.off ∧ linkElev (p :: es) e.off = e.elev := by
  intro es
  induction es with
  | nil =>
    intro p e _ he
    simp only [List.getLast?_singleton, Option.some.injEq] at he
    subst he; exact ⟨le_refl _, rfl⟩
  | cons c t ih =>
    intro p e hch he
    rw [List.isChain_cons_cons] at hch
    rw [List.getLast?_cons_cons] at he
    obtain ⟨h1, h2⟩ := ih c e hch.2 he
    refine ⟨by linarith [hch.1], ?_⟩
    rw [linkElev_cons_cons]
    split_ifs with hle
    · have heq : e.off = c.off := le_antisymm hle h1
      have hc : linkElev (c :: t) c.off = c.elev := linkElev_head c t hch.2
      rw [heq] at h2 ⊢
      rw [← h2, hc]
      have : c.off - p.off ≠ 0 := ne_of_gt (sub_pos.mpr hch.1)
      field_simp
      ring
    · exact h2

/-- destructuring of the elevation list of a validated link -/
theorem LinkOK.elevs_cons {l : Link α} (h : LinkOK l) :
    ∃ p c t e, l.elevs = p :: c :: t ∧ p.off = 0 ∧ (p :: c :: t).getLast? = some e ∧ e.off = l.length :=
  two_pts (·.off) l.elevs l.length h.elev_two h.elev_first h.elev_last

theorem routeLen_nonneg : ∀ (links : List (Link α)), (∀ l ∈ links, LinkOK l) → 0 ≤ routeLen links
  | [], _ => le_refl _
  | l :: ls, h => by
    have := routeLen_nonneg ls (fun x hx => h x (by simp [hx]))
    have := (h l (by simp)).len_pos
    rw [routeLen]; linarith

theorem routeGrades_head : ∀ (links : List (Link α)), (∀ l ∈ links, LinkOK l) → ∀ (b c0 n : α),
    ∃ T rest, routeGrades b c0 n links = T :: rest ∧ T.off = b
  | [], _, b, c0, n => ⟨_, _, rfl, rfl⟩
  | l :: ls, h, b, c0, n => by
    obtain ⟨p, c, t, e, hes, hp0, _, _⟩ := (h l (by simp)).elevs_cons
    rw [routeGrades, hes, segGrades, List.cons_append]
    exact ⟨_, _, rfl, by rw [hp0, add_zero]⟩

theorem routeElevFrom_cons (e : α) (l : Link α) (ls : List (Link α)) (x : α) :
    routeElevFrom e (l :: ls) x =
      if x ≤ l.length then e + (linkElev l.elevs x - elevFirst l.elevs)
      else routeElevFrom (e + (elevLast l.elevs - elevFirst l.elevs)) ls (x - l.length) := by
  rw [routeElevFrom]

theorem routeElevFrom_zero : ∀ (links : List (Link α)), (∀ l ∈ links, LinkOK l) → ∀ e : α,
    routeElevFrom e links 0 = e
  | [], _, _ => rfl
  | l :: ls, h, e => by
    have ok := h l (by simp)
    obtain ⟨p, c, t, e', hes, hp0, _, _⟩ := ok.elevs_cons
    have hch := ok.elev_chain
    rw [hes] at hch
    have := linkElev_head p (c :: t) hch
    rw [hp0] at this
    rw [routeElevFrom_cons, if_pos (le_of_lt ok.len_pos), hes, this]
    simp [elevFirst]

/-- **the grade profile represents the route elevation**: neighbouring points of the closed form are
    strictly increasing in offset, lie inside `[b, b + total]`, and on each closed segment the
    piecewise-linear value equals the elevation obtained by walking the links -/
theorem routeGrades_chain : ∀ (links : List (Link α)), (∀ l ∈ links, LinkOK l) → ∀ (b c0 n : α),
    List.IsChain (SegB b (b + routeLen links) (fun x => routeElevFrom n links (x - b)))
      (routeGrades b c0 n links)
  | [], _, b, c0, n => by simp [routeGrades]
  | l :: ls, h, b, c0, n => by
    have ok := h l (by simp)
    have hls : ∀ x ∈ ls, LinkOK x := fun x hx => h x (by simp [hx])
    obtain ⟨p, c, t, e, hes, hp0, hlast, helen⟩ := ok.elevs_cons
    have hch := ok.elev_chain
    rw [hes] at hch
    have hrl := routeLen_nonneg ls hls
    obtain ⟨T, rest, hT, hToff⟩ := routeGrades_head ls hls (b + l.length) 0
      (n + (elevLast l.elevs - elevFirst l.elevs))
    have ih := routeGrades_chain ls hls (b + l.length) 0 (n + (elevLast l.elevs - elevFirst l.elevs))
    rw [routeGrades, hT, List.isChain_split]
    rw [hT] at ih
    have hElast : elevLast l.elevs = e.elev := by rw [hes]; exact elevLast_of_getLast? _ _ hlast
    have hEfirst : elevFirst l.elevs = p.elev := by rw [hes]; rfl
    constructor
    · have := segGrades_chain b n p.elev (c :: t) p e T (by simp) hch hlast
        (by rw [hToff, helen])
      rw [hEfirst, hes]
      refine this.imp ?_
      rintro a a' ⟨h1, h2, h3, h4⟩
      rw [hp0, add_zero] at h1
      rw [helen] at h3
      refine ⟨h1, h2, by rw [routeLen]; linarith, ?_⟩
      intro x hx1 hx2
      rw [h4 x hx1 hx2]
      dsimp only
      rw [routeElevFrom_cons, if_pos (by linarith), hes]
      rfl
    · refine ih.imp ?_
      rintro a a' ⟨h1, h2, h3, h4⟩
      refine ⟨by linarith [ok.len_pos], h2, by rw [routeLen]; linarith, ?_⟩
      intro x hx1 hx2
      rw [h4 x hx1 hx2]
      dsimp only
      rw [routeElevFrom_cons]
      have hxl : l.length ≤ x - b := by linarith
      rcases eq_or_lt_of_le hxl with heq | hlt
      · rw [if_pos (le_of_eq heq.symm), ← heq]
        have hz : x - (b + l.length) = 0 := by rw [heq]; ring
        rw [hz, routeElevFrom_zero ls hls, hElast, hEfirst, hes, ← helen,
          (linkElev_last (c :: t) p e hch hlast).2]
      · rw [if_neg (not_le.mpr hlt)]
        congr 1; ring

/-! ### the invariant and the unpacked closed form -/

theorem extend_ok_pre_ne_nil (toU32 : α → Nat) (g : GeoConsts α) (net : List (Link α)) {t t' : Tpc α}
    {p : List Nat} (h : extend toU32 g net t p = .ok t') :
    t.linkPoints ≠ [] ∧ t.grades ≠ [] ∧ t.curves ≠ [] ∧ t.speedPoints ≠ [] := by
  rw [extend_eq] at h
  obtain ⟨_, e1, h⟩ := bind_eq_ok.mp h
  obtain ⟨_, e2, h⟩ := bind_eq_ok.mp h
  obtain ⟨_, e3, h⟩ := bind_eq_ok.mp h
  obtain ⟨_, e4, h⟩ := bind_eq_ok.mp h
  exact ⟨ensure_ok_ne_nil e1, ensure_ok_ne_nil e2, ensure_ok_ne_nil e3, ensure_ok_ne_nil e4⟩

theorem routeGrades_ne_nil (links : List (Link α)) (b c0 n : α) : routeGrades b c0 n links ≠ [] := by
  induction links generalizing b c0 n with
  | nil => simp [routeGrades]
  | cons l ls ih => rw [routeGrades]; simp [ih]

theorem routeCurves_ne_nil (g : GeoConsts α) (par : TrainPar α) (links : List (Link α)) (b c0 n : α) :
    routeCurves g par b c0 n links ≠ [] := by
  induction links generalizing b c0 n with
  | nil => simp [routeCurves]
  | cons l ls ih => rw [routeCurves]; simp [ih]

theorem routeGrades_getLast_off : ∀ (links : List (Link α)) (b c0 n : α),
    (routeGrades b c0 n links).getLast?.map (·.off) = some (b + routeLen links)
  | [], b, c0, n => by simp [routeGrades, routeLen]
  | l :: ls, b, c0, n => by
    rw [routeGrades, List.getLast?_append_of_ne_nil _ (routeGrades_ne_nil _ _ _ _),
      routeGrades_getLast_off ls, routeLen, add_assoc]

theorem routeCurves_getLast_off (g : GeoConsts α) (par : TrainPar α) : ∀ (links : List (Link α)) (b c0 n : α),
    (routeCurves g par b c0 n links).getLast?.map (·.off) = some (b + routeLen links)
  | [], b, c0, n => by simp [routeCurves, routeLen]
  | l :: ls, b, c0, n => by
    rw [routeCurves, List.getLast?_append_of_ne_nil _ (routeCurves_ne_nil _ _ _ _ _ _),
      routeCurves_getLast_off g par ls, routeLen, add_assoc]

theorem routeLPs_getLast_off (links : List (Link α)) (last : LinkPt α) :
    (routeLPs last links).getLast?.map (·.off) = some (last.off + routeLen links) := by
  have h1 := routeLPs_off links last
  have h2 := prefixOffs_getLast links last.off
  rw [← h1, List.getLast?_map] at h2
  exact h2

/-- the three profiles of a path end at the same offset -/
def Inv (t : Tpc α) : Prop :=
  ∃ o, t.linkPoints.getLast?.map (·.off) = some o ∧ t.grades.getLast?.map (·.off) = some o ∧
    t.curves.getLast?.map (·.off) = some o

theorem getLast?_map_some {β : Type} {l : List β} {f : β → α} {o : α} (h : l.getLast?.map f = some o) :
    ∃ L x, l = L ++ [x] ∧ f x = o := by
  rcases List.eq_nil_or_concat l with rfl | ⟨L, x, rfl⟩
  · simp at h
  · refine ⟨L, x, by simp, ?_⟩
    simpa using h

/-- unpacked closed form of an accepted call from a state satisfying `Inv` -/
theorem extend_ok_closed (toU32 : α → Nat) (g : GeoConsts α) (net : List (Link α))
    {route : List Nat} {links : List (Link α)} {t t' : Tpc α}
    (h : extend toU32 g net t route = .ok t') (hres : Resolves net route links)
    (hok : ∀ l ∈ links, LinkOK l) (hinv : Inv t) :
    ∃ L last G gl C cl, t.linkPoints = L ++ [last] ∧ t.grades = G ++ [gl] ∧ t.curves = C ++ [cl] ∧
      gl.off = last.off ∧ cl.off = last.off ∧
      t'.linkPoints = L ++ routeLPs last links ∧
      t'.grades = G ++ routeGrades last.off gl.coeff (initNet G gl.net links) links ∧
      t'.curves = C ++ routeCurves g t.par last.off cl.coeff cl.net links ∧
      t'.cats = t.cats ++ routeCats last.off links ∧
      routeSpeeds toU32 t.par t.speedPoints last.off links = .ok t'.speedPoints ∧
      t'.par = t.par ∧ t'.isFinished = t.isFinished := by
  obtain ⟨o, h1, h2, h3⟩ := hinv
  obtain ⟨L, last, hL, rfl⟩ := getLast?_map_some h1
  obtain ⟨G, gl, hG, hgo⟩ := getLast?_map_some h2
  obtain ⟨C, cl, hC, hco⟩ := getLast?_map_some h3
  obtain ⟨_, _, _, n4⟩ := extend_ok_pre_ne_nil toU32 g net h
  have hG' : t.grades = G ++ [⟨last.off, gl.coeff, gl.net⟩] := by rw [hG, ← hgo]
  have hC' : t.curves = C ++ [⟨last.off, cl.coeff, cl.net⟩] := by rw [hC, ← hco]
  obtain ⟨_, _, sp, hsp, rfl⟩ := (extend_ok_iff toU32 g net route links t t' L last G C last.off
    gl.coeff gl.net cl.coeff cl.net hres hok hL hG' hC' n4).mp h
  exact ⟨L, last, G, gl, C, cl, hL, hG, hC, hgo, hco, rfl, rfl, rfl, rfl, hsp, rfl, rfl⟩

/-- **the invariant** `grades.last.off = curves.last.off = linkPoints.last.off` is preserved by
    `extend` on validated links -/
theorem extend_inv (toU32 : α → Nat) (g : GeoConsts α) (net : List (Link α))
    {route : List Nat} {links : List (Link α)} {t t' : Tpc α}
    (h : extend toU32 g net t route = .ok t') (hres : Resolves net route links)
    (hok : ∀ l ∈ links, LinkOK l) (hinv : Inv t) : Inv t' := by
  obtain ⟨L, last, G, gl, C, cl, _, _, _, _, _, e1, e2, e3, _⟩ :=
    extend_ok_closed toU32 g net h hres hok hinv
  refine ⟨last.off + routeLen links, ?_, ?_, ?_⟩
  · rw [e1, List.getLast?_append_of_ne_nil _ (routeLPs_ne_nil _ _), routeLPs_getLast_off]
  · rw [e2, List.getLast?_append_of_ne_nil _ (routeGrades_ne_nil _ _ _ _), routeGrades_getLast_off]
  · rw [e3, List.getLast?_append_of_ne_nil _ (routeCurves_ne_nil _ _ _ _ _ _), routeCurves_getLast_off]

theorem inv_new (par : TrainPar α) : Inv (Tpc.new par) := ⟨0, rfl, rfl, rfl⟩

/-! ### where the points of one link sit -/

/-- total elevation rise of a route (sum of last − first elevation per link) -/
def routeRise : List (Link α) → α
  | [] => 0
  | l :: ls => (elevLast l.elevs - elevFirst l.elevs) + routeRise ls

/-- number of grade / curve points a link contributes -/
def gradeCnt (l : Link α) : Nat := l.elevs.length - 1
def curveCnt (l : Link α) : Nat := if l.headings.isEmpty then 1 else l.headings.length - 1

theorem segGrades_getElem (b n e0 : α) : ∀ (es1 : List (Elev α)) (p c : Elev α) (es2 : List (Elev α)),
    (segGrades b n e0 (es1 ++ p :: c :: es2))[es1.length]? =
      some ⟨b + p.off, (c.elev - p.elev) / (c.off - p.off), n + (p.elev - e0)⟩
  | [], p, c, es2 => by simp [segGrades]
  | [q], p, c, es2 => by simp [segGrades]
  | q :: r :: es1, p, c, es2 => by
    have := segGrades_getElem b n e0 (r :: es1) p c es2
    simpa [segGrades] using this

theorem segCurves_getElem (g : GeoConsts α) (par : TrainPar α) (b : α) :
    ∀ (hs1 : List (Heading α)) (p c : Heading α) (hs2 : List (Heading α)) (n : α),
    ∃ nk, (segCurves g par b n (hs1 ++ p :: c :: hs2))[hs1.length]? =
      some ⟨b + p.off, curveCoeff g par (c.heading - p.heading) (c.off - p.off), nk⟩
  | [], p, c, hs2, n => ⟨n, by simp [segCurves]⟩
  | [q], p, c, hs2, n =>
    ⟨n + curveCoeff g par (p.heading - q.heading) (p.off - q.off) * (p.off - q.off), by simp [segCurves]⟩
  | q :: r :: hs1, p, c, hs2, n => by
    obtain ⟨nk, h⟩ := segCurves_getElem g par b (r :: hs1) p c hs2
      (n + curveCoeff g par (r.heading - q.heading) (r.off - q.off) * (r.off - q.off))
    exact ⟨nk, by simpa [segCurves] using h⟩

/-- the grade points of link `l` sit behind those of the links in front of it -/
theorem routeGrades_getElem : ∀ (pre : List (Link α)) (l : Link α) (post : List (Link α)) (b c0 n : α) (j : Nat),
    j < gradeCnt l →
    (routeGrades b c0 n (pre ++ l :: post))[(pre.map gradeCnt).sum + j]? =
      (segGrades (b + routeLen pre) (n + routeRise pre) (elevFirst l.elevs) l.elevs)[j]?
  | [], l, post, b, c0, n, j, hj => by
    simp only [List.nil_append, routeGrades, List.map_nil, List.sum_nil, Nat.zero_add, routeLen, routeRise,
      add_zero]
    rw [List.getElem?_append_left (by rw [segGrades_length]; exact hj)]
  | x :: pre, l, post, b, c0, n, j, hj => by
    have ih := routeGrades_getElem pre l post (b + x.length) 0
      (n + (elevLast x.elevs - elevFirst x.elevs)) j hj
    simp only [List.cons_append, routeGrades, List.map_cons, List.sum_cons, routeLen, routeRise]
    rw [List.getElem?_append_right (by rw [segGrades_length]; unfold gradeCnt; omega), segGrades_length]
    have : gradeCnt x + (pre.map gradeCnt).sum + j - (x.elevs.length - 1) = (pre.map gradeCnt).sum + j := by
      unfold gradeCnt; omega
    rw [this, ih, add_assoc, add_assoc]

/-- the curve points of link `l` sit behind those of the links in front of it -/
theorem routeCurves_getElem (g : GeoConsts α) (par : TrainPar α) :
    ∀ (pre : List (Link α)) (l : Link α) (post : List (Link α)) (b n : α) (j : Nat),
    j < curveCnt l →
    ∃ nk, (routeCurves g par b 0 n (pre ++ l :: post))[(pre.map curveCnt).sum + j]? =
      (if l.headings.isEmpty then [⟨b + routeLen pre, 0, nk⟩]
        else segCurves g par (b + routeLen pre) nk l.headings)[j]?
  | [], l, post, b, n, j, hj => by
    refine ⟨n, ?_⟩
    simp only [List.nil_append, routeCurves, List.map_nil, List.sum_nil, Nat.zero_add, routeLen, add_zero]
    rw [List.getElem?_append_left]
    unfold curveCnt at hj
    split_ifs at hj ⊢
    · simpa using hj
    · rw [segCurves_length]; exact hj
  | x :: pre, l, post, b, n, j, hj => by
    obtain ⟨nk, ih⟩ := routeCurves_getElem g par pre l post (b + x.length) (curvesNet g par n x.headings) j hj
    refine ⟨nk, ?_⟩
    have hlen : (if x.headings.isEmpty then [(⟨b, 0, n⟩ : PRC α)] else segCurves g par b n x.headings).length
        = curveCnt x := by
      unfold curveCnt; split_ifs
      · rfl
      · rw [segCurves_length]
    simp only [List.cons_append, routeCurves, List.map_cons, List.sum_cons, routeLen]
    rw [List.getElem?_append_right (by rw [hlen]; omega), hlen]
    have : curveCnt x + (pre.map curveCnt).sum + j - curveCnt x = (pre.map curveCnt).sum + j := by omega
    rw [this, ih, add_assoc]

theorem routeCurves_head (g : GeoConsts α) (par : TrainPar α) : ∀ (links : List (Link α)),
    (∀ l ∈ links, LinkOK l) → ∀ (b c0 n : α),
    ∃ T rest, routeCurves g par b c0 n links = T :: rest ∧ T.off = b
  | [], _, b, c0, n => ⟨_, _, rfl, rfl⟩
  | l :: ls, h, b, c0, n => by
    rw [routeCurves]
    rcases (h l (by simp)).head_ok with h0 | ⟨h2, _, hf, hl⟩
    · rw [h0]; exact ⟨_, _, rfl, rfl⟩
    · obtain ⟨p, c, t, e, hhs, hp0, _, _⟩ := two_pts (·.off) l.headings l.length h2 hf hl
      rw [hhs]
      simp only [List.isEmpty_cons, Bool.false_eq_true, if_false, segCurves, List.cons_append]
      exact ⟨_, _, rfl, by rw [hp0, add_zero]⟩

/-- the curve points of the links behind `pre` -/
theorem routeCurves_drop (g : GeoConsts α) (par : TrainPar α) :
    ∀ (pre rest : List (Link α)) (b n : α),
    ∃ nk, (routeCurves g par b 0 n (pre ++ rest)).drop ((pre.map curveCnt).sum) =
      routeCurves g par (b + routeLen pre) 0 nk rest
  | [], rest, b, n => ⟨n, by simp [routeLen]⟩
  | x :: pre, rest, b, n => by
    obtain ⟨nk, ih⟩ := routeCurves_drop g par pre rest (b + x.length) (curvesNet g par n x.headings)
    refine ⟨nk, ?_⟩
    have hlen : (if x.headings.isEmpty then [(⟨b, 0, n⟩ : PRC α)] else segCurves g par b n x.headings).length
        = curveCnt x := by
      unfold curveCnt; split_ifs
      · rfl
      · rw [segCurves_length]
    simp only [List.cons_append, routeCurves, List.map_cons, List.sum_cons, routeLen]
    rw [← hlen, List.drop_length_add_append, ih, add_assoc]

end field

end Altrios.Proofs.TpcL
