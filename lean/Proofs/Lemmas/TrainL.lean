import Altrios.Train
import Proofs.Lemmas.Basic
import Proofs.Lemmas.Ledger
import Mathlib.Algebra.Order.Field.Basic
import Mathlib.Tactic.Linarith
import Mathlib.Tactic.Ring
import Mathlib.Tactic.FieldSimp
import Mathlib.Tactic.NormNum
import Mathlib.Tactic.SplitIfs
import Mathlib.Data.List.Basic
/-
  Helper lemmas for C12 (kinematic bookkeeping) and C14 (set-speed run: trace following and wheel
  power): inversion of the train-level `do` blocks of `Altrios/Train.lean`
  (`setLinkAndOffset`, `ssRequiredPwr`, `ssIntegrate`, `ssStep`, `slRequiredPwr`, `slStep`),
  the search `positionGe`, the frame of `updateRes`, and the small arithmetic facts
  (kinetic-energy identity, clipping, `almostEq`).
-/
set_option linter.unusedSectionVars false
set_option linter.unusedSimpArgs false
set_option autoImplicit false
namespace Altrios.Proofs.TrainL
open Altrios Altrios.Tpc Altrios.Rs Altrios.PT Altrios.CS Altrios.Tr
open Altrios.Proofs.Basic Altrios.Proofs.LedgerL

variable {α : Type} [Field α] [LinearOrder α] [IsStrictOrderedRing α]

/-- decidable view of a `Res` (avoids a global `DecidableEq (Res _)` instance) -/
def okVal {σ : Type} : Res σ → Option σ
  | .ok v => some v
  | _ => none

theorem okVal_some {σ : Type} {r : Res σ} {v : σ} (h : okVal r = some v) : r = .ok v := by
  cases r <;> simp [okVal] at h; rw [h]

/-- `panic` outcomes as a Boolean (for `decide`) -/
def isPanic {σ : Type} : Res σ → Bool
  | .panic _ => true
  | _ => false

theorem isPanic_iff {σ : Type} {r : Res σ} : isPanic r = true ↔ ∃ e, r = .panic e := by
  cases r <;> simp [isPanic]

/-! ### Arithmetic -/

/-- rate of change of kinetic energy over a step: `m/(2 dt) (v₁² − v₀²) = m · (v₁−v₀)/dt · (v₀+v₁)/2` -/
theorem kinetic_identity (m v0 v1 dt : α) (hdt : dt ≠ 0) :
    m / (2 * dt) * (v1 * v1 - v0 * v0) = m * ((v1 - v0) / dt) * ((v0 + v1) / 2) := by
  field_simp
  ring

/-- the same as a difference quotient of `½ m v²` -/
theorem kinetic_identity' (m v0 v1 dt : α) (hdt : dt ≠ 0) :
    m / (2 * dt) * (v1 * v1 - v0 * v0) = (1 / 2 * m * v1 ^ 2 - 1 / 2 * m * v0 ^ 2) / dt := by
  field_simp

theorem clip_eq_self {x n p : α} (h1 : -n ≤ x) (h2 : x ≤ p) : min (max x (-n)) p = x := by
  rw [max_eq_left h1, min_eq_left h2]

theorem clip_bounds {x n p : α} (h : -n ≤ p) : -n ≤ min (max x (-n)) p ∧ min (max x (-n)) p ≤ p :=
  ⟨le_min (le_max_right _ _) h, min_le_right _ _⟩

theorem clip_above {x n p : α} (hx : p ≤ x) : min (max x (-n)) p = p := by
  rw [min_eq_right]; exact le_trans hx (le_max_left _ _)

theorem clip_below {x n p : α} (h : -n ≤ p) (hx : x ≤ -n) : min (max x (-n)) p = -n := by
  rw [max_eq_right hx, min_eq_left h]

theorem almostEq_iff (a b eps : α) :
    almostEq a b eps = true ↔ |(b - a) / (a + b)| < eps ∨ |b - a| < eps := by
  unfold almostEq
  simp only [Bool.or_eq_true, decide_eq_true_iff, absv_eq_abs]

/-- what an accepted `almost_eq` says about the absolute difference. The guard `a + b ≠ 0` keeps the
    totalised division of the ordered-field model out of the statement (IEEE: `x/0 = ±∞`, not `< eps`). -/
theorem almostEq_bound {a b eps : α} (h : almostEq a b eps = true) (hab : a + b ≠ 0) :
    0 < eps ∧ |b - a| < eps * max 1 |a + b| := by
  rw [almostEq_iff] at h
  have hpos : 0 < eps := by
    rcases h with h | h <;> exact lt_of_le_of_lt (abs_nonneg _) h
  refine ⟨hpos, ?_⟩
  rcases h with h | h
  · have hab' : 0 < |a + b| := abs_pos.mpr hab
    rw [abs_div, div_lt_iff₀ hab'] at h
    exact lt_of_lt_of_le h (mul_le_mul_of_nonneg_left (le_max_right _ _) hpos.le)
  · exact lt_of_lt_of_le h (le_mul_of_one_le_right hpos.le (le_max_left _ _))

/-! ### `positionGe` -/

theorem positionGe_eq_some {x : α} : ∀ (l : List (LinkPt α)) (i n : Nat) (hn : n < l.length),
    (∀ m (hm : m < n), l[m].off < x) → x ≤ l[n].off → positionGe x l i = some (i + n)
  | [], _, _, hn, _, _ => by simp at hn
  | p :: ps, i, 0, _, _, hx => by
    simp only [List.getElem_cons_zero] at hx
    simp [positionGe, hx]
  | p :: ps, i, n + 1, hn, hlt, hx => by
    have h0 : ¬ x ≤ p.off := not_le.mpr (hlt 0 (Nat.succ_pos n))
    simp only [positionGe, h0, if_false]
    rw [positionGe_eq_some ps (i + 1) n (by simpa using hn)
      (fun m hm => by simpa using hlt (m + 1) (Nat.succ_lt_succ hm)) (by simpa using hx)]
    congr 1; omega

theorem positionGe_eq_none {x : α} : ∀ (l : List (LinkPt α)) (i : Nat),
    (∀ p ∈ l, p.off < x) → positionGe x l i = none
  | [], _, _ => rfl
  | p :: ps, i, h => by
    have h0 : ¬ x ≤ p.off := not_le.mpr (h p (List.mem_cons_self))
    simp only [positionGe, h0, if_false]
    exact positionGe_eq_none ps (i + 1) (fun q hq => h q (List.mem_cons_of_mem _ hq))

/-- the first index whose offset is at or beyond `x` -/
theorem exists_first_ge {x : α} : ∀ (l : List (LinkPt α)), (∃ p ∈ l, x ≤ p.off) →
    ∃ n, ∃ hn : n < l.length, x ≤ l[n].off ∧ ∀ m (hm : m < n), l[m].off < x
  | [], h => by simp at h
  | p :: ps, h => by
    by_cases h0 : x ≤ p.off
    · exact ⟨0, by simp, by simpa using h0, fun m hm => absurd hm (Nat.not_lt_zero m)⟩
    · obtain ⟨q, hq, hxq⟩ := h
      have hq' : q ∈ ps := by
        rcases List.mem_cons.mp hq with rfl | hq'
        · exact absurd hxq h0
        · exact hq'
      obtain ⟨n, hn, hx, hlt⟩ := exists_first_ge ps ⟨q, hq', hxq⟩
      refine ⟨n + 1, by simpa using hn, by simpa using hx, fun m hm => ?_⟩
      cases m with
      | zero => simpa using not_le.mp h0
      | succ k => simpa using hlt k (Nat.lt_of_succ_lt_succ hm)

/-! ### `setLinkAndOffset` -/

/-- the state written by an accepted `set_link_and_offset` that picked link point `lp` -/
def located (s : TrainState α) (lp : LinkPt α) : TrainState α :=
  { s with k := { s.k with linkIdxFront := lp.linkIdx, offsetInLink := s.r.offset - lp.off } }

/-- main case: `n + 1` is the first index at or beyond the front, the link point before it is picked -/
theorem setLinkAndOffset_of_first_ge {lps : List (LinkPt α)} {s : TrainState α} {n : Nat}
    (hn : n + 1 < lps.length) (hx : s.r.offset ≤ lps[n + 1].off)
    (hlt : ∀ m (hm : m < n + 1), lps[m].off < s.r.offset) :
    setLinkAndOffset lps s = .ok (located s lps[n]) := by
  unfold setLinkAndOffset
  rw [positionGe_eq_some lps 0 (n + 1) hn hlt hx]
  simp [located, List.getElem?_eq_getElem (Nat.lt_of_succ_lt hn)]

/-- front at or before the first link point: `position(..) = 0`, `0 - 1` underflows -/
theorem setLinkAndOffset_panic {p : LinkPt α} {ps : List (LinkPt α)} {s : TrainState α}
    (hx : s.r.offset ≤ p.off) : setLinkAndOffset (p :: ps) s = .panic "underflow" := by
  unfold setLinkAndOffset
  simp [positionGe, hx]

theorem setLinkAndOffset_nil (s : TrainState α) : setLinkAndOffset [] s = .panic "underflow" := by
  unfold setLinkAndOffset
  simp [positionGe]

/-- front beyond every link point: `position(..) = None`, `unwrap_or(len) - 1` is the LAST point
    (the trailing dummy point of a built path) -/
theorem setLinkAndOffset_beyond {lps : List (LinkPt α)} {s : TrainState α} (hne : lps ≠ [])
    (hx : ∀ p ∈ lps, p.off < s.r.offset) :
    setLinkAndOffset lps s = .ok (located s (lps.getLast hne)) := by
  unfold setLinkAndOffset
  rw [positionGe_eq_none lps 0 hx]
  have hlen : lps.length ≠ 0 := by simpa using hne
  have hlt : lps.length - 1 < lps.length := by omega
  simp only [Option.getD_none, hlen, if_false, List.getElem?_eq_getElem hlt, located,
    List.getLast_eq_getElem]

/-- complete case analysis of `set_link_and_offset` (no hypothesis on the link points) -/
theorem setLinkAndOffset_cases (lps : List (LinkPt α)) (s : TrainState α) :
    (setLinkAndOffset lps s = .panic "underflow" ∧ ∀ h : 0 < lps.length, s.r.offset ≤ lps[0].off) ∨
    (∃ n, ∃ hn : n + 1 < lps.length, setLinkAndOffset lps s = .ok (located s lps[n]) ∧
        s.r.offset ≤ lps[n + 1].off ∧ ∀ m (hm : m < n + 1), lps[m].off < s.r.offset) ∨
    (∃ hne : lps ≠ [], setLinkAndOffset lps s = .ok (located s (lps.getLast hne)) ∧
        ∀ p ∈ lps, p.off < s.r.offset) := by
  by_cases hex : ∃ p ∈ lps, s.r.offset ≤ p.off
  · obtain ⟨n, hn, hx, hlt⟩ := exists_first_ge lps hex
    cases n with
    | zero =>
      left
      cases lps with
      | nil => simp at hn
      | cons p ps => exact ⟨setLinkAndOffset_panic (by simpa using hx), fun _ => hx⟩
    | succ n => exact Or.inr (Or.inl ⟨n, hn, setLinkAndOffset_of_first_ge hn hx hlt, hx, hlt⟩)
  · have hall : ∀ p ∈ lps, p.off < s.r.offset := fun p hp => not_le.mp (fun hle => hex ⟨p, hp, hle⟩)
    cases lps with
    | nil => exact Or.inl ⟨setLinkAndOffset_nil s, fun h => by simp at h⟩
    | cons p ps => exact Or.inr (Or.inr ⟨by simp, setLinkAndOffset_beyond (by simp) hall, hall⟩)

/-- the `Err` outcome of `set_link_and_offset` (`.get(idx).with_context(..)?`) is dead code -/
theorem setLinkAndOffset_ne_err (lps : List (LinkPt α)) (s : TrainState α) (e : String) :
    setLinkAndOffset lps s ≠ .err e := by
  rcases setLinkAndOffset_cases lps s with ⟨h, _⟩ | ⟨_, _, h, _⟩ | ⟨_, h, _⟩ <;> rw [h] <;> simp

/-- an accepted call changes `linkIdxFront` and `offsetInLink` only -/
theorem setLinkAndOffset_inv {lps : List (LinkPt α)} {s s' : TrainState α}
    (h : setLinkAndOffset lps s = .ok s') : ∃ lp ∈ lps, s' = located s lp := by
  rcases setLinkAndOffset_cases lps s with ⟨h', _⟩ | ⟨n, hn, h', _⟩ | ⟨hne, h', _⟩ <;> rw [h'] at h
  · cases h
  · exact ⟨lps[n], List.getElem_mem _, by cases h; rfl⟩
  · exact ⟨lps.getLast hne, List.getLast_mem hne, by cases h; rfl⟩

/-! ### `ssRequiredPwr` -/

/-- published traction limit of the step (rate-limited) -/
def posMax (cs : ConsistState α) (s : TrainState α) : α :=
  min cs.pwrOutMax (max 0 (s.k.pwrWhlOut + cs.pwrRateOutMax * s.k.dt))

/-- dynamic-braking capability -/
def negMax (cs : ConsistState α) : α := max cs.pwrDynBrakeMax 0

theorem negMax_nonneg (cs : ConsistState α) : 0 ≤ negMax cs := le_max_right _ _

structure SsPwr (c : TrConsts α) (cs : ConsistState α) (s s' : TrainState α) (vPrev vCur dtI : α) :
    Prop where
  posMax_nonneg : 0 ≤ posMax cs s
  r : s'.r = s.r
  pwrRes : s'.k.pwrRes = resNet s.r * (c.half * (vCur + vPrev))
  pwrAccel : s'.k.pwrAccel = massCompound s / (c.two * dtI) * (vCur * vCur - vPrev * vPrev)
  pwrWhlOut : s'.k.pwrWhlOut = min (max (s'.k.pwrAccel + s'.k.pwrRes) (-negMax cs)) (posMax cs s)
  dt : s'.k.dt = dtI
  energyWhlOut : s'.k.energyWhlOut = s.k.energyWhlOut + s'.k.pwrWhlOut * dtI
  energyWhlOutPos : s'.k.energyWhlOutPos =
    if 0 ≤ s'.k.pwrWhlOut then s.k.energyWhlOutPos + s'.k.pwrWhlOut * dtI else s.k.energyWhlOutPos
  energyWhlOutNeg : s'.k.energyWhlOutNeg =
    if 0 ≤ s'.k.pwrWhlOut then s.k.energyWhlOutNeg else s.k.energyWhlOutNeg - s'.k.pwrWhlOut * dtI
  time : s'.k.time = s.k.time
  totalDist : s'.k.totalDist = s.k.totalDist
  massRot : s'.k.massRot = s.k.massRot
  linkIdxFront : s'.k.linkIdxFront = s.k.linkIdxFront
  offsetInLink : s'.k.offsetInLink = s.k.offsetInLink

theorem ssRequiredPwr_inv {c : TrConsts α} {cs : ConsistState α} {s s' : TrainState α}
    {vPrev vCur dtI : α} (h : ssRequiredPwr c cs s vPrev vCur dtI = .ok s') :
    SsPwr c cs s s' vPrev vCur dtI := by
  unfold ssRequiredPwr at h
  simp only [bind_ok, pure_ok, ensure_ok, exists_const, decide_eq_true_iff, mn_eq_min, mx_eq_max] at h
  obtain ⟨h0, rfl⟩ := h
  constructor <;> first | exact h0 | rfl

/-- the only way `solve_required_pwr` fails is a negative traction limit -/
theorem ssRequiredPwr_ok (c : TrConsts α) (cs : ConsistState α) (s : TrainState α) (vPrev vCur dtI : α)
    (h : 0 ≤ posMax cs s) : ∃ s', ssRequiredPwr c cs s vPrev vCur dtI = .ok s' := by
  unfold ssRequiredPwr
  simp only [bind_ok, pure_ok, ensure_ok, exists_const, decide_eq_true_iff, mn_eq_min, mx_eq_max]
  exact ⟨_, h, rfl⟩

/-! ### `ssIntegrate` -/

/-- the state after the kinematic assignments of `SetSpeedTrainSim::solve_step`,
    before `set_link_and_offset` -/
def ssMoved (c : TrConsts α) (s : TrainState α) (vPrev vCur tCur : α) : TrainState α :=
  { s with r := { s.r with speed := vCur, offset := s.r.offset + c.half * (vCur + vPrev) * s.k.dt,
                           offsetBack := s.r.offset + c.half * (vCur + vPrev) * s.k.dt - s.r.length },
           k := { s.k with time := tCur } }

theorem ssIntegrate_iff {c : TrConsts α} {lps : List (LinkPt α)} {s s' : TrainState α}
    {vPrev vCur tCur : α} :
    ssIntegrate c lps s vPrev vCur tCur = .ok s' ↔
      ∃ s₂, setLinkAndOffset lps (ssMoved c s vPrev vCur tCur) = .ok s₂ ∧
        s' = { s₂ with k := { s₂.k with
          totalDist := s₂.k.totalDist + |c.half * (vCur + vPrev) * s₂.k.dt| } } := by
  unfold ssIntegrate
  simp only [bind_ok, pure_ok, absv_eq_abs, ssMoved]
  constructor
  · rintro ⟨s₂, h1, rfl⟩; exact ⟨s₂, h1, rfl⟩
  · rintro ⟨s₂, h1, rfl⟩; exact ⟨s₂, h1, rfl⟩

structure SsInt (c : TrConsts α) (lps : List (LinkPt α)) (s s' : TrainState α) (vPrev vCur tCur : α) :
    Prop where
  time : s'.k.time = tCur
  speed : s'.r.speed = vCur
  offset : s'.r.offset = s.r.offset + c.half * (vCur + vPrev) * s.k.dt
  offsetBack : s'.r.offsetBack = s'.r.offset - s.r.length
  length : s'.r.length = s.r.length
  massStatic : s'.r.massStatic = s.r.massStatic
  totalDist : s'.k.totalDist = s.k.totalDist + |c.half * (vCur + vPrev) * s.k.dt|
  dt : s'.k.dt = s.k.dt
  massRot : s'.k.massRot = s.k.massRot
  pwrWhlOut : s'.k.pwrWhlOut = s.k.pwrWhlOut
  pwrAccel : s'.k.pwrAccel = s.k.pwrAccel
  pwrRes : s'.k.pwrRes = s.k.pwrRes
  energyWhlOut : s'.k.energyWhlOut = s.k.energyWhlOut
  energyWhlOutPos : s'.k.energyWhlOutPos = s.k.energyWhlOutPos
  energyWhlOutNeg : s'.k.energyWhlOutNeg = s.k.energyWhlOutNeg
  /-- the front was located by `set_link_and_offset` at the NEW position -/
  loc : ∃ s₂, setLinkAndOffset lps (ssMoved c s vPrev vCur tCur) = .ok s₂ ∧
    s'.k.linkIdxFront = s₂.k.linkIdxFront ∧ s'.k.offsetInLink = s₂.k.offsetInLink

theorem ssIntegrate_inv {c : TrConsts α} {lps : List (LinkPt α)} {s s' : TrainState α}
    {vPrev vCur tCur : α} (h : ssIntegrate c lps s vPrev vCur tCur = .ok s') :
    SsInt c lps s s' vPrev vCur tCur := by
  obtain ⟨s₂, h2, rfl⟩ := ssIntegrate_iff.mp h
  obtain ⟨lp, _, rfl⟩ := setLinkAndOffset_inv h2
  constructor <;> first | rfl | exact ⟨_, h2, rfl, rfl⟩

/-! ### `updateRes` frame -/

theorem updateRes_frame {g rho : α} {grades curves : List (PRC α)} {r r' : ResStrap α}
    {st st' : Rs.ResState α} {dir : Dir} (h : updateRes g rho grades curves r st dir = .ok (r', st')) :
    st'.offset = st.offset ∧ st'.length = st.length ∧ st'.speed = st.speed ∧
    st'.massStatic = st.massStatic ∧ st'.offsetBack = st.offset - st.length := by
  unfold updateRes at h
  simp only [bind_ok, pure_ok, Prod.mk.injEq] at h
  obtain ⟨⟨gi, gc⟩, _, ⟨ci, cc⟩, _, pf, _, pb, _, _, rfl⟩ := h
  exact ⟨rfl, rfl, rfl, rfl, rfl⟩

/-! ### `ssStep` -/

theorem ssStep_inv {kc : Consts α} {c : TrConsts α} {g rho : α} {t : Tpc α} {res res' : ResStrap α}
    {con con' : Consist α} {s s' : TrainState α} {vPrev vCur tPrev tCur : α}
    (h : ssStep kc c g rho t res con s vPrev vCur tPrev tCur = .ok (con', res', s')) :
    0 ≤ vCur ∧ 0 ≤ vPrev ∧ ∃ (con₁ : Consist α) (r₁ : Rs.ResState α) (s₁ : TrainState α),
      consistSetCurMax kc (consistSetAux con (some true)) (tCur - tPrev) = .ok con₁ ∧
      updateRes g rho t.grades t.curves res s.r .fwd = .ok (res', r₁) ∧
      ssRequiredPwr c con₁.state { s with r := r₁ } vPrev vCur (tCur - tPrev) = .ok s₁ ∧
      consistSolve kc con₁ s₁.k.pwrWhlOut (tCur - tPrev) (some true) = .ok con' ∧
      ssIntegrate c t.linkPoints s₁ vPrev vCur tCur = .ok s' := by
  unfold ssStep at h
  simp only [bind_ok, pure_ok, ensure_ok, exists_const, decide_eq_true_iff, Prod.mk.injEq] at h
  obtain ⟨hv, hp, con₁, h1, ⟨res₁, r₁⟩, h2, h⟩ := h
  simp only [bind_ok, pure_ok, Prod.mk.injEq] at h
  obtain ⟨s₁, h3, con₂, h4, s₂, h5, rfl, rfl, rfl⟩ := h
  exact ⟨hv, hp, con₁, r₁, s₁, h1, h2, h3, h4, h5⟩

/-- a negative CURRENT sample is rejected (first `ensure!`) -/
theorem ssStep_neg_err (kc : Consts α) (c : TrConsts α) (g rho : α) (t : Tpc α) (res : ResStrap α)
    (con : Consist α) (s : TrainState α) (vPrev vCur tPrev tCur : α) (hv : vCur < 0) :
    ssStep kc c g rho t res con s vPrev vCur tPrev tCur = .err "negative-speed" := by
  unfold ssStep
  have : decide (0 ≤ vCur) = false := decide_eq_false (not_le.mpr hv)
  simp [ensure, this, bind, Res.bind]

/-- a negative PREVIOUS sample is rejected (second `ensure!`, added by the fix in /repo) -/
theorem ssStep_prev_neg_err (kc : Consts α) (c : TrConsts α) (g rho : α) (t : Tpc α) (res : ResStrap α)
    (con : Consist α) (s : TrainState α) (vPrev vCur tPrev tCur : α) (hc : 0 ≤ vCur) (hv : vPrev < 0) :
    ssStep kc c g rho t res con s vPrev vCur tPrev tCur = .err "negative-speed-prev" := by
  unfold ssStep
  have h1 : decide (0 ≤ vCur) = true := decide_eq_true hc
  have h2 : decide (0 ≤ vPrev) = false := decide_eq_false (not_le.mpr hv)
  simp [ensure, h1, h2, bind, Res.bind]

/-! ### `slRequiredPwr`, `slStep` -/

/-- `f_applied` of `SpeedLimitTrainSim::solve_required_pwr` as a function of the inputs and of the
    speed target returned by `calc_speeds` (the same expression as in `slRequiredPwr`) -/
def slFApplied (c : TrConsts α) (sqrt : α → α) (forceMaxCon : α) (cs : ConsistState α)
    (fb : FricBrake α) (s : TrainState α) (target : α) : α :=
  let k := s.k
  let res := resNet s.r
  let mc := massCompound s
  let fTarget := res + mc * (target - s.r.speed) / k.dt
  let pwrPosMax := mn cs.pwrOutMax (mx 0 (k.pwrWhlOut + cs.pwrRateOutMax * k.dt))
  let tpm := k.dt / mc
  let a := s.r.speed - res * tpm
  let vMax := c.half * (a + sqrt (a * a + c.four * tpm * pwrPosMax))
  let fPosMax := mn forceMaxCon (pwrPosMax / mn target vMax)
  let fb := fricSetCurMax fb k.dt
  let vNegLim := cs.pwrDynBrakeMax / forceMaxCon
  let fRegenDyn := if vNegLim < s.r.speed then cs.pwrDynBrakeMax / vMax else forceMaxCon
  mn fPosMax (mx fTarget (-fb.forceMaxCurr - fRegenDyn))

/-- `vel_change`: the speed change of the step BEFORE the snap to the target -/
def slDv (c : TrConsts α) (sqrt : α → α) (forceMaxCon : α) (cs : ConsistState α)
    (fb : FricBrake α) (s : TrainState α) (target : α) : α :=
  s.k.dt / massCompound s * (slFApplied c sqrt forceMaxCon cs fb s target - resNet s.r)

/-- kinematic content of one accepted `SpeedLimitTrainSim::solve_required_pwr`, `dv` = `vel_change` -/
structure SlKin (c : TrConsts α) (s s' : TrainState α) (dv : α) : Prop where
  time : s'.k.time = s.k.time + s.k.dt
  dt : s'.k.dt = s.k.dt
  offset : s'.r.offset = s.r.offset + s.k.dt * (s.r.speed + c.half * dv)
  offsetBack : s'.r.offsetBack = s'.r.offset - s.r.length
  length : s'.r.length = s.r.length
  totalDist : s'.k.totalDist = s.k.totalDist + |s.k.dt * (s.r.speed + c.half * dv)|
  speed : s'.r.speed =
    if almostEq (s.r.speed + dv) s'.k.speedTarget c.eps then s'.k.speedTarget else s.r.speed + dv
  pwrAccel : s'.k.pwrAccel =
    massCompound s / (c.two * s.k.dt) * ((s.r.speed + dv) * (s.r.speed + dv) - s.r.speed * s.r.speed)
  pwrRes : s'.k.pwrRes = resNet s.r * (s.r.speed + c.half * dv)
  massStatic : s'.r.massStatic = s.r.massStatic
  massRot : s'.k.massRot = s.k.massRot
  linkIdxFront : s'.k.linkIdxFront = s.k.linkIdxFront
  offsetInLink : s'.k.offsetInLink = s.k.offsetInLink

theorem slRequiredPwr_inv {c : TrConsts α} {sqrt : α → α} {fmc : α} {cs : ConsistState α}
    {fb fb' : FricBrake α} {bp bp' : BrakingPoints α} {s s' : TrainState α}
    (h : slRequiredPwr c sqrt fmc cs fb bp s = .ok (fb', bp', s')) :
    (∃ limit, calcSpeeds bp s.r.offset s.r.speed (fb.rampUpTime * fb.rampUpCoeff)
        = .ok (bp', limit, s'.k.speedTarget) ∧ s'.k.speedLimit = limit) ∧
    SlKin c s s' (slDv c sqrt fmc cs fb s s'.k.speedTarget) := by
  unfold slRequiredPwr at h
  simp only [bind_ok, pure_ok, ensure_ok, exists_const, decide_eq_true_iff] at h
  obtain ⟨hbr, ⟨bp1, limit, target⟩, hcs, h⟩ := h
  simp only [bind_ok, pure_ok, ensure_ok, exists_const, decide_eq_true_iff] at h
  obtain ⟨hpos, h⟩ := h
  split at h
  · cases h
  simp only [bind_ok, pure_ok, ensure_ok, exists_const, decide_eq_true_iff, Prod.mk.injEq] at h
  obtain ⟨fc, hfc, h1, h2, rfl, rfl, rfl⟩ := h
  refine ⟨⟨limit, hcs, rfl⟩, ?_⟩
  constructor <;> first | rfl | (rw [← absv_eq_abs]; rfl)

theorem slStep_inv {kc : Consts α} {c : TrConsts α} {sqrt : α → α} {g rho : α} {t : Tpc α}
    {res res' : ResStrap α} {con con' : Consist α} {ufm : List α} {fb fb' : FricBrake α}
    {bp bp' : BrakingPoints α} {s s' : TrainState α}
    (h : slStep kc c sqrt g rho t res con ufm fb bp s = .ok (con', res', fb', bp', s')) :
    ∃ (con₁ : Consist α) (r₁ : Rs.ResState α) (s₁ : TrainState α),
      consistSetCurMax kc (consistSetAux con (some true)) s.k.dt = .ok con₁ ∧
      updateRes g rho t.grades t.curves res s.r .fwd = .ok (res', r₁) ∧
      slRequiredPwr c sqrt (consistForceMax ufm) con₁.state fb bp { s with r := r₁ }
        = .ok (fb', bp', s₁) ∧
      consistSolve kc con₁ s₁.k.pwrWhlOut s₁.k.dt (some true) = .ok con' ∧
      setLinkAndOffset t.linkPoints s₁ = .ok s' := by
  unfold slStep at h
  simp only [bind_ok, pure_ok, Prod.mk.injEq] at h
  obtain ⟨con₁, h1, ⟨res₁, r₁⟩, h2, h⟩ := h
  simp only [bind_ok, pure_ok, Prod.mk.injEq] at h
  obtain ⟨⟨fb₁, bp₁, s₁⟩, h3, h⟩ := h
  simp only [bind_ok, pure_ok, Prod.mk.injEq] at h
  obtain ⟨con₂, h4, s₂, h5, rfl, rfl, rfl, rfl, rfl⟩ := h
  exact ⟨con₁, r₁, s₁, h1, h2, h3, h4, h5⟩

/-! ### `SetSpeedTrainSim::walk` -/

/-- `SetSpeedTrainSim::walk` as a fold of the model's `ssStep` over the trace samples after `p`
    (the Rust loop runs `i = 1 .. len`, step `i` reads samples `i-1` and `i`) -/
def ssWalk (kc : Consts α) (c : TrConsts α) (g rho : α) (t : Tpc α) :
    ResStrap α × Consist α × TrainState α → α × α → List (α × α) →
      Res (ResStrap α × Consist α × TrainState α)
  | st, _, [] => .ok st
  | (res, con, s), p, q :: tr =>
    (ssStep kc c g rho t res con s p.2 q.2 p.1 q.1).bind fun x =>
      ssWalk kc c g rho t (x.2.1, x.1, x.2.2) q tr

/-! ### Concrete data over `ℚ` for a WHOLE accepted `ssStep` (one diesel unit, a 1 kg "train") -/
namespace ExW

def zE : EdrvState ℚ := ⟨0,0,0,0,0,0,0,0,0,0,0,0,0,0,0⟩
/-- drivetrain with constant efficiency 1 -/
def edrv (rating regen : ℚ) : Edrv ℚ :=
  ⟨{ zE with pwrMechRegenMax := regen }, rating, [0, 1], [1, 1], []⟩
def fc : FC ℚ := ⟨⟨10,0,0,0,0,0,0,0,0,0,true⟩, 10, 1, 1, [0, 1], [1, 1], 0⟩
def gen : Gen ℚ := ⟨⟨0,0,0,0,0,0,0,0,0,0,0,0⟩, 10, [0, 1], [1, 1], []⟩
/-- a diesel unit: 10 W engine, 6 W drivetrain, all efficiencies 1 -/
def loco : Loco ℚ :=
  { pt := .conv fc gen (edrv 6 0), state := ⟨5, 0, 0, 0, 0, 0, 0⟩, assertLimits := true,
    pwrAuxOffset := 0, pwrAuxTractionCoeff := 0 }
def kc : Consts ℚ := ⟨1/1000, 1/100000000, 1/20, 10⟩
def c : TrConsts ℚ := ⟨1/2, 2, 4, 44704/1000000, 1/100000000, 1/10000000⟩
def zCS : ConsistState ℚ := ⟨0,0,0,0,0,0,0,0,0,0,0,0,0,0,0,0,0⟩
def con : Consist ℚ := ⟨[loco], .proportional, true, { zCS with pwrDynBrakeMax := 6 }⟩
/-- one flat, straight 1000 m link (id 3) -/
def tpc : Tpc ℚ :=
  { linkPoints := [⟨0, 1, 1, 0, 3⟩, ⟨1000, 0, 0, 0, 0⟩], grades := [⟨0, 0, 0⟩, ⟨1000, 0, 0⟩],
    curves := [⟨0, 0, 0⟩, ⟨1000, 0, 0⟩], speedPoints := [], cats := [],
    par := ⟨⟨200, 30, 1, 1, 4⟩, 0, 0, 0, 0⟩, isFinished := true }
/-- resistance: 1 N bearing force only -/
def strap : ResStrap ℚ := ⟨1, 0, 0, 0, ⟨0, 0⟩, ⟨0, 0⟩⟩
def r : Rs.ResState ℚ :=
  { offset := 500, offsetBack := 300, speed := 1, length := 200, massStatic := 1,
    weightStatic := 0, resRolling := 0, resBearing := 0, resDavisB := 0, resAero := 0,
    resGrade := 0, resCurve := 0, gradeFront := 0, gradeBack := 0, elevFront := 0 }
def k : Kin ℚ :=
  { time := 0, totalDist := 0, linkIdxFront := 3, offsetInLink := 500, speedLimit := 30,
    speedTarget := 30, dt := 1, massRot := 0, massFreight := 0, pwrRes := 0, pwrAccel := 0,
    pwrWhlOut := 0, energyWhlOut := 0, energyWhlOutPos := 0, energyWhlOutNeg := 0 }
def s : TrainState ℚ := ⟨r, k⟩
def g : ℚ := 981/100
def rho : ℚ := 12/10

/-- the whole step (t, v) = (0, 1) → (1, 2) is accepted: accel 1.5 W + resistance 1.5 W = 3 W at the
    wheel AND out of the consist, front 500 → 501.5 m -/
theorem step_ok :
    okVal ((ssStep kc c g rho tpc strap con s 1 2 0 1).bind fun x =>
      pure [x.1.state.pwrOut, x.1.state.energyOut,
            x.2.2.k.time, x.2.2.r.speed, x.2.2.k.pwrAccel, x.2.2.k.pwrRes, x.2.2.k.pwrWhlOut,
            x.2.2.r.offset, x.2.2.r.offsetBack, x.2.2.k.totalDist, x.2.2.k.offsetInLink])
      = some [3, 3, 1, 2, 3/2, 3/2, 3, 1003/2, 603/2, 3/2, 1003/2] := by
  decide +kernel

theorem step_ok' : ∃ con' res' s', ssStep kc c g rho tpc strap con s 1 2 0 1 = .ok (con', res', s') := by
  have h := step_ok
  cases hr : ssStep kc c g rho tpc strap con s 1 2 0 1 with
  | ok x => exact ⟨x.1, x.2.1, x.2.2, rfl⟩
  | err e => rw [hr] at h; simp [Res.bind, okVal] at h
  | panic e => rw [hr] at h; simp [Res.bind, okVal] at h

end ExW

end Altrios.Proofs.TrainL
