import Altrios.Train
import Generated.TrainKernels
import Mathlib.Algebra.Order.Field.Basic
import Mathlib.Tactic.SplitIfs
import Proofs.Lemmas.KernelTac
/-
  TrainKernels — the TRANSLATOR tie between the Lean model of the TRAIN layer and the Rust source.

  `Generated/TrainKernels.lean` (namespace `Altrios.GenTr`) is re-written from /repo's CURRENT Rust text by
  `/verif/scan/translate_train_kernels.py` on every check of C03 / C07 / C11 / C12 / C14: one definition per
  straight-line function of the train layer, a statement-by-statement reading of the Rust (sequence of nested
  record updates on the objects the function may write, `?` = bind, `ensure!` / `bail!` = `ensure` / `bail`).
  This file proves, over an arbitrary linearly ordered field, that every regenerated definition EQUALS the
  hand-written model definition (`Altrios.Rs.*`, `Altrios.Tr.*`), as values of `Res` — same outcome, same `err`
  tag, same records.  Hence every theorem of C03 / C07 / C11 / C12 / C14 about `Rs.updateRes`, `Tr.ssRequiredPwr`,
  `Tr.ssIntegrate`, `Tr.ssStep`, `Tr.slRequiredPwr`, `Tr.slStep`, `Tr.fricSetCurMax`, `Tr.scalingFactor`,
  `Tr.walkCond`, `Tr.walkStuck` is, by rewriting with `f_eq`, a theorem about what the Rust text says now.

  What the equalities make visible (differences between the Rust text and the hand model that the proofs bridge):
    * the hand model fuses functions: `Rs.updateRes` is `Strap::update_res` with the four `Basic::calc_res`, `mass()`,
      `calc_res_val` inlined, on the `ResState` part of the train state; `Tr.ssRequiredPwr` has the trace's `dt(i)` /
      `mean(i)` inlined (equality at `dt = time[i] - time[i-1]`, the call shape `ssStep_eq` shows `solve_step` uses);
      `Tr.slRequiredPwr` has `res_net()`, `mass_compound()`, `set_cur_force_max_out` inlined.
    * `mass()` / `mass_compound()` are fallible in Rust and can never fail (`derived_mass` is `Ok(Some(..))`).
    * `FricBrake::set_cur_force_max_out` returns `Result` and never fails.
    * `update_res` indexes the grade table at `idx_front` twice (`res_coeff_front`, `res_net_front`), the model once.
    * `solve_required_pwr` (speed-limited) computes `f_max_consist_regen_dyn` by an inner `if` whose two branches are
      the same value (`pwr_dyn_brake_max / v_max`); the model has the value.
    * fields written before a later `?` / `ensure!` / `bail!` fails are lost in both (the result is only the error).
-/
set_option linter.unusedSectionVars false
namespace Altrios.Proofs.TrainKernels
open Altrios Altrios.Proofs.KernelTac

variable {α : Type} [Field α] [LinearOrder α] [IsStrictOrderedRing α]

/-- every listed Rust function was inside the translator's subset on this tree
    (otherwise `Generated/TrainKernels.lean` contains always-panicking stubs and the list of reasons) -/
theorem translator_ok : GenTr.translatorOk = true ∧ GenTr.translatorErrors = [] := ⟨rfl, rfl⟩

/-! ### `utils::almost_{eq,le}` (epsilon: `None` ↦ 1e-8) -/

theorem almostEq_eq (c : Tr.TrConsts α) (a b : α) (e : Option α) :
    GenTr.almostEq c a b e = almostEq a b (e.getD c.eps) := by cases e <;> rfl
theorem almostLe_eq (c : Tr.TrConsts α) (a b : α) (e : Option α) :
    GenTr.almostLe c a b e = almostLe a b (e.getD c.eps) := by cases e <;> rfl

/-! ### normalisation of the `Res` monad (as in Proofs/Kernels.lean) -/

theorem bind_ok {σ τ} (a : σ) (f : σ → Res τ) : Res.bind (Res.ok a) f = f a := rfl
theorem bind_err {σ τ} (e : String) (f : σ → Res τ) : Res.bind (Res.err e) f = Res.err e := rfl
theorem bind_panic {σ τ} (e : String) (f : σ → Res τ) : Res.bind (Res.panic e) f = Res.panic e := rfl
theorem bind_ite {σ τ} (c : Prop) [Decidable c] (a b : Res σ) (f : σ → Res τ) :
    Res.bind (if c then a else b) f = if c then Res.bind a f else Res.bind b f := by
  split_ifs <;> rfl
theorem bind_congr {σ τ} {r : Res σ} {f g : σ → Res τ} (h : ∀ s, f s = g s) :
    Res.bind r f = Res.bind r g := by
  cases r <;> simp [Res.bind, h]
theorem bind_assoc {σ τ υ} (r : Res σ) (f : σ → Res τ) (g : τ → Res υ) :
    Res.bind (Res.bind r f) g = Res.bind r (fun x => Res.bind (f x) g) := by
  cases r <;> rfl

/-! ### TrainState helpers -/

/-- `TrainState::derived_mass` never fails -/
theorem derivedMass_eq (s : Tr.TrainState α) : GenTr.derivedMass s = .ok (some s.r.massStatic) := rfl
/-- `TrainState::mass` never fails -/
theorem trainMass_eq (s : Tr.TrainState α) : GenTr.trainMass s = .ok (some s.r.massStatic) := rfl
/-- `TrainState::res_net` -/
theorem trainResNet_eq (s : Tr.TrainState α) : GenTr.trainResNet s = Rs.resNet s.r := rfl
/-- `TrainState::mass_compound` never fails and is the model's `massCompound` -/
theorem massCompound_eq (s : Tr.TrainState α) : GenTr.massCompound s = .ok (Tr.massCompound s) := rfl

/-! ### resistance kinds -/

theorem bearingCalcRes_eq (r : Rs.ResStrap α) : GenTr.bearingCalcRes r = r.bearingForce := rfl
theorem rollingCalcRes_eq (r : Rs.ResStrap α) (s : Tr.TrainState α) :
    GenTr.rollingCalcRes r s = r.rollingRatio * s.r.weightStatic := rfl
theorem davisBCalcRes_eq (r : Rs.ResStrap α) (s : Tr.TrainState α) :
    GenTr.davisBCalcRes r s = r.davisB * s.r.speed * s.r.weightStatic := rfl
theorem aeroCalcRes_eq (rho : α) (r : Rs.ResStrap α) (s : Tr.TrainState α) :
    GenTr.aeroCalcRes rho r s = r.cdArea * rho * s.r.speed * s.r.speed := rfl
theorem calcResVal_eq (coeff : α) (s : Tr.TrainState α) :
    GenTr.calcResVal coeff s = coeff * s.r.weightStatic := rfl

/-! ### the proof procedure

  Both sides are run side by side: unfold the pure helpers (inside `Decidable` instances too, so that equal
  conditions have equal instances), normalise the monad (`bind` of a constructor, `ensure`), replace the arithmetic
  the two sides share by variables (`kshare`), then repeatedly: step under a bind of a call that is stuck on both
  sides (`calcSpeeds`, `strapCoeff`, the consist callees) or split the first `if` (`case_first_ite`); leaves close by
  `rfl` at reducible transparency.  Only the CONTENT of the generated definitions is used — no names of
  temporaries, line numbers or layout. -/

theorem almostEq_none (c : Tr.TrConsts α) (a b : α) : GenTr.almostEq c a b none = almostEq a b c.eps := rfl
theorem almostEq_some (c : Tr.TrConsts α) (a b e : α) : GenTr.almostEq c a b (some e) = almostEq a b e := rfl
theorem almostLe_none (c : Tr.TrConsts α) (a b : α) : GenTr.almostLe c a b none = almostLe a b c.eps := rfl
theorem almostLe_some (c : Tr.TrConsts α) (a b e : α) : GenTr.almostLe c a b (some e) = almostLe a b e := rfl

/-- unfold the pure helpers by `rfl` lemmas, also inside instance arguments -/
macro "kernel_unfold" : tactic => `(tactic|
  dsimp +instances only [almostEq_none, almostEq_some, almostLe_none, almostLe_some, trainResNet_eq,
    Tr.massCompound, GenTr.traceDt, GenTr.traceMean, GenTr.bearingCalcRes, GenTr.rollingCalcRes,
    GenTr.davisBCalcRes, GenTr.aeroCalcRes, GenTr.calcResVal])

/-- normalise the monad: binds of constructors, `ensure`, the infallible helpers -/
macro "kernel_norm" : tactic => `(tactic|
  simp (maxSteps := 400000000) only [trainMass_eq, massCompound_eq, Tr.massCompound, GenTr.ctxOpt, GenTr.bail,
    bind, pure, bind_ok, bind_err, bind_panic, bind_assoc, ensure, Bool.false_eq_true, ↓reduceIte, ite_self])

/-- split the first `if` and reduce both cases by `rfl` lemmas -/
macro "kernel_split" : tactic => `(tactic|
  (case_first_ite <;>
   dsimp +instances only [KernelTac.ite_isTrue, KernelTac.ite_isFalse, bind_ok, bind_err, bind_panic]))

macro "kernel_eq" : tactic => `(tactic| (
  try kernel_unfold
  all_goals try kernel_norm
  all_goals try kshare
  all_goals repeat' (first
    | (with_reducible apply bind_congr; intro _; try kshare)
    | kernel_split
    | with_reducible rfl)))

/-! ### `method::Strap::update_res` -/

/-- `Strap::update_res(state, path_tpc, dir)` is the model's `updateRes` on the resistance part of the state -/
theorem updateRes_eq (g rho : α) (r : Rs.ResStrap α) (s : Tr.TrainState α) (t : Tpc.Tpc α) (dir : Rs.Dir) :
    GenTr.updateRes g rho r s t dir
      = (Rs.updateRes g rho t.grades t.curves r s.r dir).bind (fun p => .ok (p.1, { s with r := p.2 })) := by
  unfold GenTr.updateRes Rs.updateRes GenTr.strapCalcRes
  kernel_unfold
  kernel_norm
  apply bind_congr; intro gi
  apply bind_congr; intro ci
  -- the Rust indexes the grade table at `idx_front` twice (`res_coeff_front`, `res_net_front`), the model once
  generalize Rs.getP t.grades gi.1.front = pf
  generalize Rs.getP t.grades gi.1.back = pb
  cases pf <;> cases pb <;> rfl

/-! ### friction brake -/

/-- `FricBrake::set_cur_force_max_out` never fails and is the model's `fricSetCurMax` -/
theorem fricSetCurMax_eq (f : Tr.FricBrake α) (dt : α) :
    GenTr.fricSetCurMax f dt = .ok (Tr.fricSetCurMax f dt) := rfl

/-! ### speed trace -/

theorem traceDt_eq (vp vc tp tc : α) : GenTr.traceDt vp vc tp tc = tc - tp := rfl
theorem traceMean_eq (c : Tr.TrConsts α) (vp vc tp tc : α) : GenTr.traceMean c vp vc tp tc = c.half * (vc + vp) := rfl

/-! ### SetSpeedTrainSim -/

/-- `SetSpeedTrainSim::solve_required_pwr(dt)` at `dt = time[i] - time[i-1]` (the call shape of `solve_step`) -/
theorem ssRequiredPwr_eq (c : Tr.TrConsts α) (cs : CS.ConsistState α) (s : Tr.TrainState α) (vp vc tp tc : α) :
    GenTr.ssRequiredPwr c cs s vp vc tp tc (tc - tp) = Tr.ssRequiredPwr c cs s vp vc (tc - tp) := by
  unfold GenTr.ssRequiredPwr Tr.ssRequiredPwr
  kernel_eq

/-- the kinematic tail of `SetSpeedTrainSim::solve_step` (the statements after `solve_energy_consumption`) -/
theorem ssIntegrate_eq (c : Tr.TrConsts α) (t : Tpc.Tpc α) (s : Tr.TrainState α) (vp vc tp tc : α) :
    GenTr.ssIntegrate c t s vp vc tp tc = Tr.ssIntegrate c t.linkPoints s vp vc tc := by
  unfold GenTr.ssIntegrate Tr.ssIntegrate
  kernel_eq

/-- the whole `SetSpeedTrainSim::solve_step`: same callees, same arguments, same order -/
theorem ssStep_eq (kc : PT.Consts α) (c : Tr.TrConsts α) (g rho : α) (t : Tpc.Tpc α) (con : CS.Consist α)
    (res : Rs.ResStrap α) (s : Tr.TrainState α) (vp vc tp tc : α) :
    GenTr.ssStep kc c g rho t con res s vp vc tp tc = Tr.ssStep kc c g rho t res con s vp vc tp tc := by
  unfold GenTr.ssStep Tr.ssStep
  simp only [updateRes_eq, GenTr.traceDt, ssRequiredPwr_eq]
  unfold Tr.ssIntegrate
  kernel_eq

/-! ### SpeedLimitTrainSim -/

/-- `SpeedLimitTrainSim::solve_required_pwr` -/
theorem slRequiredPwr_eq (c : Tr.TrConsts α) (sqrt : α → α) (fm : α) (cs : CS.ConsistState α)
    (fb : Tr.FricBrake α) (bp : Tr.BrakingPoints α) (s : Tr.TrainState α) :
    GenTr.slRequiredPwr c sqrt fm cs fb bp s = Tr.slRequiredPwr c sqrt fm cs fb bp s := by
  unfold GenTr.slRequiredPwr Tr.slRequiredPwr
  simp only [fricSetCurMax_eq]
  kernel_eq

/-- the whole `SpeedLimitTrainSim::solve_step`; `force_max()` of the consist is the fold over the unit values -/
theorem slStep_eq (kc : PT.Consts α) (c : Tr.TrConsts α) (sqrt : α → α) (g rho : α) (t : Tpc.Tpc α)
    (con : CS.Consist α) (res : Rs.ResStrap α) (ufm : List α) (fb : Tr.FricBrake α) (bp : Tr.BrakingPoints α)
    (s : Tr.TrainState α) :
    GenTr.slStep kc c sqrt (Tr.consistForceMax ufm) g rho t con res fb bp s
      = Tr.slStep kc c sqrt g rho t res con ufm fb bp s := by
  unfold GenTr.slStep Tr.slStep
  simp only [updateRes_eq, slRequiredPwr_eq]
  kernel_eq

/-- `SpeedLimitTrainSim::get_scaling_factor` -/
theorem scalingFactor_eq (c36525 : α) (days : Option α) (annualize : Bool) :
    GenTr.scalingFactor c36525 days annualize = Tr.scalingFactor c36525 annualize days := by
  unfold GenTr.scalingFactor Tr.scalingFactor
  cases days <;> rfl

/-- the loop condition of `SpeedLimitTrainSim::walk_internal` -/
theorem walkCond_eq (ft1000 offsetEnd : α) (s : Tr.TrainState α) :
    GenTr.walkCond ft1000 offsetEnd s = Tr.walkCond ft1000 offsetEnd s := rfl

/-- the check made after every `self.step()?` in the loop of `SpeedLimitTrainSim::walk_internal` (fix c76dec1): the
    `ensure!` FAILS (regenerated as `!(c)` of its condition `c = !(…)`) exactly when the model's `walkStuck` holds of the
    speed of the state BEFORE the step (`let speed_prev = self.state.speed;`) and the state AFTER it -/
theorem walkStuck_eq (ft1000 offsetEnd : α) (s0 s : Tr.TrainState α) :
    GenTr.walkStuck ft1000 offsetEnd s0 s = Tr.walkStuck ft1000 offsetEnd s0.r.speed s := by
  unfold GenTr.walkStuck Tr.walkStuck
  exact Bool.not_not _

/-! ### the regenerated definitions are not degenerate: concrete runs over `ℚ`
    (a stub emitted for an untranslatable function would always panic) -/
section Examples

def cQ : Tr.TrConsts Rat :=
  { half := 1/2, two := 2, four := 4, mph01 := 44704/1000000, eps := 1/100000000, eps7 := 1/10000000 }
def resQ : Rs.ResState Rat :=
  { offset := 1000, offsetBack := 0, speed := 10, length := 1000, massStatic := 1000000, weightStatic := 0,
    resRolling := 100, resBearing := 200, resDavisB := 300, resAero := 400, resGrade := 0, resCurve := 0,
    gradeFront := 0, gradeBack := 0, elevFront := 0 }
def kinQ : Tr.Kin Rat :=
  { time := 0, totalDist := 0, linkIdxFront := 0, offsetInLink := 0, speedLimit := 20, speedTarget := 20, dt := 1,
    massRot := 0, massFreight := 0, pwrRes := 0, pwrAccel := 0, pwrWhlOut := 0, energyWhlOut := 0,
    energyWhlOutPos := 0, energyWhlOutNeg := 0 }
def csQ : CS.ConsistState Rat := ⟨5000000, 1000000, 0, 0, 0, 0, 0, 2000000, 0, 0, 0, 0, 0, 0, 0, 0, 0⟩

/-- ramp: min (100 + 600/60·2) 600 = 120 -/
example : (match GenTr.fricSetCurMax (⟨600, 60, 1/2, 100, 0⟩ : Tr.FricBrake Rat) 2 with
    | .ok f => f.forceMaxCurr == 120 | _ => false) = true := by decide +kernel
/-- constant 10 m/s against 1000 N for 2 s: 10 kW at the wheel, 20 kJ, the trace step is stored -/
example : (match GenTr.ssRequiredPwr cQ csQ ⟨resQ, kinQ⟩ 10 10 0 2 2 with
    | .ok s => s.k.pwrWhlOut == 10000 && s.k.energyWhlOutPos == 20000 && s.k.dt == 2 | _ => false) = true := by
  decide +kernel
/-- a consist that publishes a negative limit is rejected with the model's tag -/
example : (match GenTr.ssRequiredPwr cQ { csQ with pwrOutMax := -1 } ⟨resQ, kinQ⟩ 10 10 0 2 2 with
    | .err t => t == "pos-max-neg" | _ => false) = true := by decide +kernel
/-- resistance scalars: weight 1e6·g, rolling = ratio·weight; an empty grade table is an error, not a value -/
example : (match GenTr.updateRes (981/100) (1225/1000) ⟨100, 1/1000, 0, 0, ⟨0, 0⟩, ⟨0, 0⟩⟩ ⟨resQ, kinQ⟩
      ⟨[], [⟨0, 0, 0⟩, ⟨2000, 0, 0⟩], [⟨0, 0, 0⟩, ⟨2000, 0, 0⟩], [], [], ⟨⟨0, 0, 0, 0, 0⟩, 0, 0, 0, 0⟩, false⟩ .fwd with
    | .ok (_, s) => s.r.weightStatic == 9810000 && s.r.resRolling == 9810 && s.r.resBearing == 100 | _ => false)
    = true := by decide +kernel

/-- the regenerated check fires on a train that stood still (speed 0 before and after the step) with target 0 at 768 m
    of a 1309 m path, and on none of: moving before the step, a non-zero target, inside the 1000 ft window -/
example : GenTr.walkStuck (1524/5 : Rat) 1309 ⟨{ resQ with speed := 0 }, kinQ⟩
      ⟨{ resQ with offset := 768, speed := 0 }, { kinQ with speedTarget := 0 }⟩ = true ∧
    GenTr.walkStuck (1524/5 : Rat) 1309 ⟨{ resQ with speed := 2 }, kinQ⟩
      ⟨{ resQ with offset := 768, speed := 0 }, { kinQ with speedTarget := 0 }⟩ = false ∧
    GenTr.walkStuck (1524/5 : Rat) 1309 ⟨{ resQ with speed := 0 }, kinQ⟩
      ⟨{ resQ with offset := 768, speed := 0 }, { kinQ with speedTarget := 3 }⟩ = false ∧
    GenTr.walkStuck (1524/5 : Rat) 1309 ⟨{ resQ with speed := 0 }, kinQ⟩
      ⟨{ resQ with offset := 1100, speed := 0 }, { kinQ with speedTarget := 0 }⟩ = false := by decide +kernel

end Examples

end Altrios.Proofs.TrainKernels
