#!/usr/bin/env python3
"""Regenerates Driver/Registry.lean: imports every Driver/Ops*.lean (each defines
`Driver.Ops<X>.handlers : List (String × Handler)`) and concatenates the handler tables."""
import os, re
here = os.path.dirname(os.path.abspath(__file__))
mods = sorted(f[:-5] for f in os.listdir(os.path.join(here, "Driver")) if re.fullmatch(r"Ops\w+\.lean", f))
txt = "import Driver.Common\n" + "".join(f"import Driver.{m}\n" for m in mods)
txt += "namespace Driver\ndef allHandlers : List (String × Handler) :=\n  " + " ++\n  ".join(f"Driver.{m}.handlers" for m in mods) + "\nend Driver\n"
p = os.path.join(here, "Driver", "Registry.lean")
if not os.path.exists(p) or open(p).read() != txt:
    open(p, "w").write(txt)
print("registry:", " ".join(mods))
