NOTE_COMMON = ("Trusted: Lean 4.33 kernel and the Mathlib modules imported; axioms propext, Classical.choice, Quot.sound only "
               "(audited every run); the model is hand-written and tied to the code only by this run's differential "
               "correspondence (as strong as its generators; distribution in the evidence); theorems are about exact "
               "ordered-field arithmetic, binary64 rounding is covered by bit-exact comparison of the Float instantiation, not by proof.")
TEXT = {
 "C02": {
  "text": "Kernel-checked theorems: for every point list meeting insert_speed's contract and every restriction, the new profile is "
          "bounded by the restriction where it covers and never rises (C02_insert_sound/mono); lifted by induction to any sequence of "
          "restrictions from the train's maximum speed (C02_profile_sound) and to any route built by add_speeds with tail-end extension "
          "and parameter gating, for any split into extend calls (C02_route_sound, C02_split). The structural model the theorems are about, "
          "its literal index transcription and the real insert_speed / PathTpc::extend are compared on every run (three-way, bit-exact).",
  "design_ref": "§7.2", "note": NOTE_COMMON, "technique": "Lean 4 proof (list induction) + differential correspondence with the Rust code",
 },
 "C13": {
  "text": "Kernel-checked theorems: one insertion changes the profile to exactly the sign-aware minimum on [start,end) and nowhere else "
          "(C13_insert_exact), keeps the stored vector canonical (C13_insert_canonical) and re-establishes the contract (C13_insert_pre); "
          "by induction any sequence of restrictions yields exactly the tightest covering restriction (C13_profile_exact/canonical). "
          "Holds of the repaired insert_speed (fix: ee87328); the pinned code lost the restoring point for a restriction strictly inside one interval.",
  "design_ref": "§7.3", "note": NOTE_COMMON, "technique": "Lean 4 proof (list induction) + differential correspondence with the Rust code",
 },
}
NOT_YET = {}
