#!/bin/sh
# mutcheck.sh <patch.diff> <PID> [tier]  — run ./check <PID> against a scratch copy of /repo (HEAD + patch),
# without touching /repo. Scratch lives under /tmp/vmut (fixed paths so the cargo cache is reused).
set -e
PATCH=$(readlink -f "$1"); PID=$2; TIER=${3:-quick}
S=/tmp/vmut
mkdir -p $S
# one mutation run at a time: the scratch tree and lean/Generated are shared
exec 9>/tmp/vmut.lock; flock 9
if [ ! -d $S/repo/.git ] && [ ! -f $S/repo/.git ]; then git -C /repo worktree add --detach $S/repo HEAD >/dev/null 2>&1; fi
git -C $S/repo reset -q --hard
git -C $S/repo checkout -q --detach $(git -C /repo rev-parse HEAD)
git -C $S/repo reset -q --hard
git -C $S/repo apply "$PATCH"
mkdir -p $S/harness/src $S/harness/.cargo
cp /verif/harness/Cargo.lock /verif/harness/build.rs $S/harness/
cp /verif/harness/.cargo/config.toml $S/harness/.cargo/
sed "s#/repo/rust/altrios-core#$S/repo/rust/altrios-core#" /verif/harness/Cargo.toml > $S/harness/Cargo.toml
rm -f $S/harness/src/*.rs
# only the blocks the property needs + shared modules
BLOCKS=$(python3 -c "import sys; sys.path.insert(0,'/verif'); from checkcfg import PROPS; print(' '.join(PROPS['$PID']['blocks']))")
for f in main prng proto netgen dispgen; do cp /verif/harness/src/$f.rs $S/harness/src/; done
for b in $BLOCKS sp pt c04; do cp /verif/harness/src/b_$b.rs $S/harness/src/ 2>/dev/null || true; done
cd /verif
set +e
VERIF_HARNESS=$S/harness VERIF_WORK=$S/work VERIF_REPLAYS=$S/replays VERIF_EVID=$S/evidence VERIF_REPO=$S/repo ./check $PID --tier $TIER
RC=$?
# the pre-hooks regenerated lean/Generated/* from the scratch repo: regenerate them from /repo again
python3 - "$PID" <<'PY'
import sys
sys.path.insert(0, "/verif")
from checkcfg import PROPS
for fn in PROPS[sys.argv[1]].get("pre", []):
    try:
        fn("/verif")
    except Exception as e:
        print("restore pre-hook failed:", e)
PY
exit $RC
