#!/bin/sh
# private copy of the harness with a chosen set of blocks (isolates from other builders' work-in-progress files)
# usage: mybuild.sh <dir> <block>...
set -e
D=$1; shift
mkdir -p $D/src $D/.cargo
cp /verif/harness/Cargo.toml /verif/harness/Cargo.lock /verif/harness/build.rs $D/
cp /verif/harness/.cargo/config.toml $D/.cargo/
rm -f $D/src/*.rs
for f in main prng proto netgen dispgen; do cp /verif/harness/src/$f.rs $D/src/; done
for b in "$@"; do cp /verif/harness/src/b_$b.rs $D/src/; done
cd $D && CARGO_NET_OFFLINE=true cargo build --offline 2>&1 | grep -E "^error" -A 14 | head -40
echo built $D
