#!/usr/bin/env python3
"""
kernels_selftest.py [--keep] [--only N,N,...]

Self-test of the kernel TRANSLATOR tie (scan/translate_kernels.py + lean/Proofs/Kernels.lean).

For the unchanged tree and for a list of small mutations it
  1. copies /repo's altrios-core sources to a scratch tree /tmp/kern-<n>/ (NEVER edits /repo),
  2. applies the mutation there (exactly one textual occurrence is required),
  3. runs the translator on the scratch tree (VERIF_REPO-style root) into a scratch Generated/Kernels.lean,
  4. compiles that file to a scratch .olean and checks /verif/lean/Proofs/Kernels.lean against it
     (LEAN_PATH overlay: the shared lake build directory is not touched, so this can run next to other builds),
and prints one table row per case: translator exit status, Lean verdict, the theorems that no longer check.

Expected: row 0 (unchanged) passes; every SEMANTIC mutation fails (translator refuses loudly, or an equality
proof breaks); rows marked `harmless` show what happens to behaviour-preserving rewrites (may pass or fail —
a failing harmless rewrite is accepted: ./check then reports `no-failing-input-found`).

Python 3 standard library only.
"""
import os
import re
import shutil
import subprocess
import sys
import time

ROOT = os.path.dirname(os.path.dirname(os.path.abspath(__file__)))
LEAN = os.path.join(ROOT, "lean")
REPO = os.environ.get("VERIF_REPO", "/repo")
SRC = "rust/altrios-core/src/"
PT = SRC + "consist/locomotive/powertrain/"

# (label, kind, file, old, new)     kind: semantic | harmless
MUTANTS = [
    ("unchanged tree", "none", None, None, None),
    ("fc solve: drop `+ self.state.pwr_idle_fuel`", "semantic", PT + "fuel_converter.rs",
     "self.state.pwr_fuel = pwr_out_req / self.state.eta + self.state.pwr_idle_fuel;",
     "self.state.pwr_fuel = pwr_out_req / self.state.eta;"),
    ("gen req: `/ eta` -> `* eta`", "semantic", PT + "generator.rs",
     "(self.state.pwr_elec_prop_out + self.state.pwr_elec_aux) / self.state.eta;",
     "(self.state.pwr_elec_prop_out + self.state.pwr_elec_aux) * self.state.eta;"),
    ("edrv req: branch `>` -> `>=`", "semantic", PT + "electric_drivetrain.rs",
     "self.state.pwr_elec_prop_in = if pwr_out_req > si::Power::ZERO {",
     "self.state.pwr_elec_prop_in = if pwr_out_req >= si::Power::ZERO {"),
    ("fc set_cur_pwr_out_max: `.min(` -> `.max(`", "semantic", PT + "fuel_converter.rs",
     "            .min(self.pwr_out_max)\n            .max(self.pwr_out_max_init);",
     "            .max(self.pwr_out_max)\n            .max(self.pwr_out_max_init);"),
    ("edrv regen max: drop the `ensure!(… >= 0)`", "semantic", PT + "electric_drivetrain.rs",
     "        ensure!(self.state.pwr_mech_regen_max >= si::Power::ZERO);\n", ""),
    ("res solve: `energy_loss +=` -> `=`", "semantic", PT + "reversible_energy_storage.rs",
     "state.energy_loss += state.pwr_loss * dt;", "state.energy_loss = state.pwr_loss * dt;"),
    ("utils::almost_le: `1.0 + epsilon` -> `1.0 - epsilon`", "semantic", SRC + "utils/mod.rs",
     "val1 < val2 * (1.0 + epsilon) || val1 < val2 + epsilon", "val1 < val2 * (1.0 - epsilon) || val1 < val2 + epsilon"),
    ("min_speed: drop the unary minus", "semantic", SRC + "track/link/speed/speed_limit.rs",
     "-speed_old.abs().min(speed_new.abs())", "speed_old.abs().min(speed_new.abs())"),
    ("gen req: energy_elec_aux accumulated BEFORE pwr_elec_aux is set (statement order)", "semantic",
     PT + "generator.rs",
     "        self.state.pwr_elec_aux = pwr_aux;\n        self.state.energy_elec_aux += self.state.pwr_elec_aux * dt;\n",
     "        self.state.energy_elec_aux += self.state.pwr_elec_aux * dt;\n        self.state.pwr_elec_aux = pwr_aux;\n"),
    ("res solve: c_rate from `.get::<si::joule>()` instead of watt_hour", "semantic",
     PT + "reversible_energy_storage.rs",
     "/ (self.energy_capacity.get::<si::watt_hour>());", "/ (self.energy_capacity.get::<si::joule>());"),
    ("res set max: default ramp width 0.05 -> 0.06 (literal without a name)", "semantic",
     PT + "reversible_energy_storage.rs",
     "self.soc_hi_ramp_start = Some(self.max_soc - 0.05 * uc::R);",
     "self.soc_hi_ramp_start = Some(self.max_soc - 0.06 * uc::R);"),
    ("fuel_converter.rs: `const TOL: f64 = 1e-3` -> `1e-2`", "semantic", PT + "fuel_converter.rs",
     "const TOL: f64 = 1e-3;", "const TOL: f64 = 1e-2;"),
    ("uc.rs: unit constant R = 1.0 -> 2.0", "semantic", SRC + "uc.rs",
     "\nunit_const!(R, Ratio, 1.0);", "\nunit_const!(R, Ratio, 2.0);"),
    ("edrv set max out: interp over pwr_out_frac_interp instead of pwr_in_frac_interp", "semantic",
     PT + "electric_drivetrain.rs",
     "                &(pwr_in_max / self.pwr_out_max).get::<si::ratio>().abs(),\n                &self.pwr_in_frac_interp,",
     "                &(pwr_in_max / self.pwr_out_max).get::<si::ratio>().abs(),\n                &self.pwr_out_frac_interp,"),
    ("gen set_pwr_in_frac_interp: `x / y` -> `x * y`", "semantic", PT + "generator.rs",
     "            .map(|(x, y)| x / y)\n            .collect();\n        // verify monotonicity\n        ensure!(\n"
     "            self.pwr_in_frac_interp.windows(2).all(|w| w[0] < w[1]),\n            format!(\n"
     "                \"{}\\ngen pwr_in_frac_interp",
     "            .map(|(x, y)| x * y)\n            .collect();\n        // verify monotonicity\n        ensure!(\n"
     "            self.pwr_in_frac_interp.windows(2).all(|w| w[0] < w[1]),\n            format!(\n"
     "                \"{}\\ngen pwr_in_frac_interp"),
    ("res solve: soc guard `<=` -> `<` (a branch no generated input need reach)", "semantic",
     PT + "reversible_energy_storage.rs",
     "            state.soc <= state.max_soc || pwr_prop_req >= si::Power::ZERO,\n            \"{}",
     "            state.soc < state.max_soc || pwr_prop_req >= si::Power::ZERO,\n            \"{}"),
    ("fc solve: an early `return Ok(())` (outside the subset)", "semantic", PT + "fuel_converter.rs",
     "        self.state.pwr_brake = pwr_out_req;\n",
     "        self.state.pwr_brake = pwr_out_req;\n        if !engine_on { return Ok(()); }\n"),
    ("harmless: fc pwr_loss uses `pwr_out_req` instead of `self.state.pwr_brake` (same value)", "harmless",
     PT + "fuel_converter.rs",
     "self.state.pwr_loss = self.state.pwr_fuel - self.state.pwr_brake;",
     "self.state.pwr_loss = self.state.pwr_fuel - pwr_out_req;"),
    ("harmless: fc solve introduces a local `let idle = …;`", "harmless", PT + "fuel_converter.rs",
     "        self.state.pwr_fuel = pwr_out_req / self.state.eta + self.state.pwr_idle_fuel;",
     "        let idle = self.state.pwr_idle_fuel;\n        self.state.pwr_fuel = pwr_out_req / self.state.eta + idle;"),
    ("harmless: gen pwr_loss operands commuted inside the parenthesis (a + b -> b + a)", "harmless",
     PT + "generator.rs",
     "self.state.pwr_mech_in - (self.state.pwr_elec_prop_out + self.state.pwr_elec_aux);",
     "self.state.pwr_mech_in - (self.state.pwr_elec_aux + self.state.pwr_elec_prop_out);"),
]


def sh(cmd, cwd=None, env=None, timeout=1800):
    t0 = time.time()
    p = subprocess.run(cmd, cwd=cwd, env=env, stdout=subprocess.PIPE, stderr=subprocess.STDOUT, text=True,
                       timeout=timeout)
    return p.returncode, p.stdout, time.time() - t0


def theorem_at(lines, ln):
    # an error reported at the start of a declaration sits on its doc comment: look forward first
    i = min(ln, len(lines)) - 1
    if lines[i].lstrip().startswith("/--"):
        for j in range(i, min(i + 6, len(lines))):
            m = re.match(r"\s*(?:theorem|example)\s+(\w+)?", lines[j])
            if m:
                return m.group(1) or "example@%d" % (j + 1)
    for i in range(min(ln, len(lines)) - 1, -1, -1):
        m = re.match(r"\s*(?:theorem|example|def)\s+(\w+)?", lines[i])
        if m and re.match(r"\s*(theorem|example)", lines[i]):
            return m.group(1) or "example@%d" % (i + 1)
    return "?"


def main():
    args = sys.argv[1:]
    keep = "--keep" in args
    only = None
    if "--only" in args:
        only = {int(x) for x in args[args.index("--only") + 1].split(",")}
    rc, lp, _ = sh(["lake", "env", "printenv", "LEAN_PATH"], cwd=LEAN)
    if rc != 0:
        print("cannot get LEAN_PATH from lake:\n" + lp)
        sys.exit(2)
    lean_path = lp.strip().splitlines()[-1]
    proof = os.path.join(LEAN, "Proofs", "Kernels.lean")
    proof_lines = open(proof, encoding="utf-8").read().splitlines()
    rows = []
    bad = 0
    for n, (label, kind, rel, old, new) in enumerate(MUTANTS):
        if only is not None and n not in only:
            continue
        scratch = "/tmp/kern-%d" % n
        shutil.rmtree(scratch, ignore_errors=True)
        shutil.copytree(os.path.join(REPO, SRC), os.path.join(scratch, SRC))
        if rel:
            p = os.path.join(scratch, rel)
            txt = open(p, encoding="utf-8").read()
            if txt.count(old) != 1:
                print("mutant %d: pattern occurs %d times in %s" % (n, txt.count(old), rel))
                sys.exit(2)
            open(p, "w", encoding="utf-8").write(txt.replace(old, new))
        gen = os.path.join(scratch, "lean", "Generated", "Kernels.lean")
        rc_t, out_t, dt_t = sh([sys.executable, os.path.join(ROOT, "scan", "translate_kernels.py"), scratch, gen,
                                "--lean-root", LEAN])
        terr = [l for l in out_t.splitlines() if "ERROR" in l or "FATAL" in l]
        olean = os.path.join(scratch, "olean", "Generated")
        os.makedirs(olean, exist_ok=True)
        env0 = dict(os.environ)
        env0["LEAN_PATH"] = lean_path
        rc_g, out_g, dt_g = sh(["lean", "--root=" + os.path.join(scratch, "lean"), "-o",
                                os.path.join(olean, "Kernels.olean"), gen], cwd=LEAN, env=env0)
        if rc_g != 0:
            verdict, failing, dt_p = "generated file does not compile", [out_g.strip().splitlines()[0][:160]], 0.0
        else:
            env = dict(os.environ)
            env["LEAN_PATH"] = os.path.join(scratch, "olean") + ":" + lean_path
            rc_p, out_p, dt_p = sh(["lean", proof], cwd=LEAN, env=env)
            errs = [int(m.group(1)) for m in re.finditer(r"Kernels\.lean:(\d+):\d+: error", out_p)]
            failing = sorted({theorem_at(proof_lines, e) for e in errs})
            verdict = "PASS" if rc_p == 0 and not errs else "FAIL"
        expect_fail = kind == "semantic"
        ok = (verdict == "PASS") if kind == "none" else ((verdict != "PASS") if expect_fail else True)
        if not ok:
            bad += 1
        rows.append((n, label, kind, rc_t, terr, verdict, failing, dt_t + dt_g + dt_p, ok))
        print("%2d | %-9s | translator exit %d | proofs %-4s | %5.1fs | %s\n     %s%s" % (
            n, kind, rc_t, verdict, dt_t + dt_g + dt_p, label,
            ("translator: " + terr[0][:230] + "\n     ") if terr else "",
            ("no longer checks: " + ", ".join(failing)) if failing else "all equalities check"))
        sys.stdout.flush()
        if not keep:
            shutil.rmtree(scratch, ignore_errors=True)
    print("\n%d cases, %d not as expected" % (len(rows), bad))
    sys.exit(1 if bad else 0)


if __name__ == "__main__":
    main()
