#!/usr/bin/env python3
"""
scan_history.py <repo-root> <out.lean>

Re-extracts from the Rust sources of altrios-core the SHAPE of the step()/save_state()/
set_save_interval() cascades (property C19) and writes it as Lean data
(`Generated/HistoryTree.lean`, namespace `Generated.HistoryTree`):

  * which structs have `state` / `history` / `save_interval`, which fields are `#[has_state]`,
    and what `derive(HistoryMethods)` generates for them -- read from the `quote!` templates of
    altrios-proc-macros/src/hm_derive.rs, not assumed;
  * for the hand-written bodies (PowertrainType, Locomotive, Consist, the four simulations):
    the callees of `step`, `save_state`, `set_save_interval`, whether each call sits inside the
    `if let Some(interval) = self.save_interval { if self.state.i % interval == 0 {…} }` gate,
    direct assignments of nested `save_interval` fields, the phase order of the simulations'
    `step()` (solve / save / advance), the `save_state()` calls in front of the `walk…` loops and
    what the constructors do with the interval;
  * the initial value of every step counter.

The reader is a comment/string-aware brace matcher plus a STRICT recursive-descent parser for
the small statement language these bodies use.  Anything it does not recognise is an error:
the scanner never guesses.  On error it exits non-zero after writing a stub table with
`scanOk := false` (so that the Lean driver still links, and `Proofs/C19.lean` does not build).

Python 3 standard library only.
"""
import hashlib
import os
import re
import sys


class ScanError(Exception):
    pass


# ----------------------------------------------------------------------------- text utilities

def clean(src, blank_strings=True):
    """same-length copy of `src` with comments (and optionally string/char contents) blanked"""
    out = list(src)
    n = len(src)
    i = 0

    def blank(a, b):
        for k in range(a, b):
            if out[k] != "\n":
                out[k] = " "

    while i < n:
        c = src[i]
        if src.startswith("//", i):
            j = src.find("\n", i)
            j = n if j < 0 else j
            blank(i, j)
            i = j
        elif src.startswith("/*", i):
            depth, j = 1, i + 2
            while j < n and depth:
                if src.startswith("/*", j):
                    depth += 1
                    j += 2
                elif src.startswith("*/", j):
                    depth -= 1
                    j += 2
                else:
                    j += 1
            blank(i, j)
            i = j
        elif c == "r" and re.match(r'r#*"', src[i:i + 8]) and (i == 0 or not (src[i - 1].isalnum() or src[i - 1] == "_")):
            m = re.match(r'r(#*)"', src[i:])
            close = '"' + m.group(1)
            j = src.find(close, i + m.end())
            if j < 0:
                raise ScanError("unterminated raw string")
            if blank_strings:
                blank(i + m.end(), j)
            i = j + len(close)
        elif c == '"':
            j = i + 1
            while j < n and src[j] != '"':
                j += 2 if src[j] == "\\" else 1
            if blank_strings:
                blank(i + 1, j)
            i = j + 1
        elif c == "'":
            m = re.match(r"'(\\[^']+|[^\\'])'", src[i:i + 16])
            if m:
                if blank_strings:
                    blank(i + 1, i + m.end() - 1)
                i += m.end()
            else:
                i += 1  # lifetime
        else:
            i += 1
    return "".join(out)


PAIRS = {"{": "}", "(": ")", "[": "]"}


def match_close(txt, i):
    """index of the bracket closing the one at txt[i] (txt is cleaned)"""
    o = txt[i]
    c = PAIRS[o]
    depth = 0
    for j in range(i, len(txt)):
        ch = txt[j]
        if ch == o:
            depth += 1
        elif ch == c:
            depth -= 1
            if depth == 0:
                return j
    raise ScanError("unbalanced %r at offset %d" % (o, i))


def match_open_back(txt, j):
    """index of the '[' opening the bracket closed at txt[j] == ']'"""
    depth = 0
    for i in range(j, -1, -1):
        if txt[i] == "]":
            depth += 1
        elif txt[i] == "[":
            depth -= 1
            if depth == 0:
                return i
    raise ScanError("unbalanced ']' at offset %d" % j)


def line_of(txt, off):
    return txt.count("\n", 0, off) + 1


class Source:
    def __init__(self, root, rel):
        self.rel = rel
        self.path = os.path.join(root, rel)
        if not os.path.exists(self.path):
            raise ScanError("source file missing: " + rel)
        self.raw = open(self.path, encoding="utf-8").read()
        self.txt = clean(self.raw)                      # comments + string contents blanked
        self.txt_s = clean(self.raw, blank_strings=False)  # comments blanked only

    def where(self, off):
        return "%s:%d" % (self.rel, line_of(self.raw, off))


# ----------------------------------------------------------------------------- items

def attrs_before(src, off):
    """attribute groups `#[...]` immediately preceding offset `off` (cleaned text), outermost first"""
    txt = src.txt
    res = []
    j = off - 1
    while True:
        while j >= 0 and txt[j].isspace():
            j -= 1
        if j >= 0 and txt[j] == "]":
            i = match_open_back(txt, j)
            if i >= 1 and txt[i - 1] == "#":
                res.append(src.txt_s[i - 1:j + 1])
                j = i - 2
                continue
        break
    res.reverse()
    return res


def find_struct(src, name):
    """(attrs, body_text, body_offset, kind) of `pub struct NAME {…}`; kind 'struct'|'unit'"""
    m = re.search(r"\bpub\s+struct\s+%s\s*(\{|;|\()" % re.escape(name), src.txt)
    if not m:
        return None
    if re.search(r"\bpub\s+struct\s+%s\s*(\{|;|\()" % re.escape(name), src.txt[m.end():]):
        raise ScanError("struct %s defined twice in %s" % (name, src.rel))
    attrs = attrs_before(src, m.start())
    if m.group(1) != "{":
        raise ScanError("%s: struct %s is not a braced struct" % (src.where(m.start()), name))
    o = m.end() - 1
    c = match_close(src.txt, o)
    return attrs, src.txt[o + 1:c], o + 1


def split_top(txt, sep=","):
    """split at separators that are at bracket depth 0 (also tracks <> conservatively off)"""
    parts, depth, cur = [], 0, []
    angle = 0
    for ch in txt:
        if ch in "({[":
            depth += 1
        elif ch in ")}]":
            depth -= 1
        elif ch == "<":
            angle += 1
        elif ch == ">" and angle > 0:
            angle -= 1
        if ch == sep and depth == 0 and angle == 0:
            parts.append("".join(cur))
            cur = []
        else:
            cur.append(ch)
    parts.append("".join(cur))
    return [p for p in parts if p.strip()]


def parse_fields(src, body, body_off):
    """[(name, type, [attr-names])] of a braced struct body"""
    fields = []
    for part in split_top(body):
        p = part.strip()
        attrs = []
        while p.startswith("#["):
            c = match_close(p, 1)
            a = p[2:c].strip()
            attrs.append(re.match(r"[A-Za-z_][A-Za-z_0-9]*", a).group(0))
            p = p[c + 1:].strip()
        m = re.match(r"(?:pub(?:\s*\([^)]*\))?\s+)?([A-Za-z_][A-Za-z_0-9]*)\s*:\s*(.+)$", p, re.S)
        if not m:
            raise ScanError("%s: cannot parse struct field %r" % (src.rel, p[:60]))
        fields.append((m.group(1), re.sub(r"\s+", "", m.group(2)), attrs))
    return fields


def find_enum(src, name):
    m = re.search(r"\bpub\s+enum\s+%s\s*\{" % re.escape(name), src.txt)
    if not m:
        raise ScanError("enum %s not found in %s" % (name, src.rel))
    o = m.end() - 1
    c = match_close(src.txt, o)
    variants = []
    for part in split_top(src.txt[o + 1:c]):
        p = part.strip()
        while p.startswith("#["):
            p = p[match_close(p, 1) + 1:].strip()
        mm = re.match(r"([A-Za-z_][A-Za-z_0-9]*)\s*\(\s*([^()]+?)\s*\)$", p)
        if not mm:
            raise ScanError("%s: enum %s variant %r is not a one-field tuple variant" % (src.rel, name, p[:60]))
        variants.append((mm.group(1), re.sub(r"\s+", "", mm.group(2))))
    return variants


def find_impls(src, header_re):
    """bodies of all `impl <header>` blocks whose header (text between `impl` and `{`) matches"""
    res = []
    for m in re.finditer(r"\bimpl\b([^{;]*)\{", src.txt):
        hdr = re.sub(r"\s+", " ", m.group(1)).strip()
        if re.fullmatch(header_re, hdr):
            o = m.end() - 1
            c = match_close(src.txt, o)
            res.append((o + 1, c))
    return res


def find_fn(src, impls, name):
    """(signature, body_text, body_offset) of `fn name` at depth 0 of one of the impl blocks"""
    found = []
    for (a, b) in impls:
        depth = 0
        i = a
        while i < b:
            ch = src.txt[i]
            if ch in "{":
                depth += 1
            elif ch in "}":
                depth -= 1
            elif depth == 0 and ch == "f":
                m = re.match(r"fn\s+%s\b" % re.escape(name), src.txt[i:i + len(name) + 16])
                if m and not (src.txt[i - 1].isalnum() or src.txt[i - 1] == "_"):
                    p = src.txt.index("(", i)
                    pc = match_close(src.txt, p)
                    o = pc + 1
                    while src.txt[o] not in "{;":
                        o += 1
                    if src.txt[o] == ";":
                        raise ScanError("%s: fn %s has no body" % (src.where(i), name))
                    c = match_close(src.txt, o)
                    found.append((src.txt[i:o], src.txt[o + 1:c], o + 1))
                    i = c
            i += 1
    if len(found) > 1:
        raise ScanError("%s: fn %s found %d times in the selected impl blocks" % (src.rel, name, len(found)))
    return found[0] if found else None


# ----------------------------------------------------------------------------- strict statement parser

TOK_RE = re.compile(r"\s*(?:([A-Za-z_][A-Za-z_0-9]*)|(\d+)|(\+=|-=|==|!=|=>|::|->|&&|\|\||<=|>=|\.\.|[{}()\[\];,.=%&|!?<>+\-*/:#]))")


def tokenize(txt, what):
    toks = []
    i = 0
    n = len(txt)
    while True:
        while i < n and txt[i].isspace():
            i += 1
        if i >= n:
            break
        m = TOK_RE.match(txt, i)
        if not m:
            if txt[i] == '"':
                j = txt.index('"', i + 1)
                toks.append(("str", txt[i:j + 1], i))
                i = j + 1
                continue
            raise ScanError("%s: cannot tokenize near %r" % (what, txt[i:i + 30]))
        if m.group(1):
            toks.append(("id", m.group(1), m.start(1)))
        elif m.group(2):
            toks.append(("num", m.group(2), m.start(2)))
        else:
            toks.append(("p", m.group(3), m.start(3)))
        i = m.end()
    return toks


class P:
    """strict parser for the bodies of step / save_state / set_save_interval and friends.
    Produces a list of events: dicts with
      kind  : 'solve' | 'inc' | 'push' | 'assign' | 'call'
      path  : access path from `self` as a tuple of segments: 'field', '[*]' (every element),
              '::Variant' (payload of that enum variant), 'deref'
      meth  : for calls: 'step' | 'save_state' | 'set_save_interval'
      gate  : 0 outside the interval gate, 2 inside `if let Some(interval)…{ if …% interval == 0 {`
      cond  : tuple of (enum-path, Variant) match conditions the event sits under
      tried : call followed by `?`
    """

    def __init__(self, txt, what, arg="save_interval"):
        self.t = tokenize(txt, what)
        self.i = 0
        self.what = what
        self.arg = arg
        self.events = []

    # -- token helpers
    def peek(self, k=0):
        return self.t[self.i + k][1] if self.i + k < len(self.t) else None

    def peekv(self, vals):
        return [self.peek(k) for k in range(len(vals))] == list(vals)

    def fail(self, msg):
        ctx = " ".join(t[1] for t in self.t[max(0, self.i - 6):self.i + 10])
        raise ScanError("%s: %s -- near `%s`" % (self.what, msg, ctx))

    def eat(self, v):
        if self.peek() != v:
            self.fail("expected `%s`, found `%s`" % (v, self.peek()))
        self.i += 1

    def eat_seq(self, vals):
        for v in vals:
            self.eat(v)

    def ident(self):
        if self.i >= len(self.t) or self.t[self.i][0] != "id":
            self.fail("expected identifier")
        self.i += 1
        return self.t[self.i - 1][1]

    # -- grammar
    def block(self, env, gate, cond):
        self.eat("{")
        while self.peek() != "}":
            if self.peek() is None:
                self.fail("unexpected end of body")
            self.stmt(env, gate, cond)
        self.eat("}")

    def stmts_until_end(self, env):
        while self.peek() is not None:
            self.stmt(env, 0, ())

    def path(self, env):
        """ID ('.' ID | '.' NUM | '.deref_mut()')*  -- stops in front of a method call"""
        root = self.ident()
        if root not in env:
            self.i -= 1
            self.fail("unknown receiver `%s`" % root)
        segs = list(env[root])
        while self.peek() == "." and self.peek(2) != "(":
            self.eat(".")
            if self.t[self.i][0] == "num":
                segs.append(self.t[self.i][1])
                self.i += 1
            else:
                segs.append(self.ident())
        while self.peekv([".", "deref_mut", "(", ")"]):
            self.i += 4
            segs.append("deref")
            while self.peek() == "." and self.peek(2) != "(":
                self.eat(".")
                segs.append(self.ident())
        return tuple(segs)

    def stmt(self, env, gate, cond):
        t = self.peek()
        if t == ";":
            self.i += 1
            return
        # Ok(())
        if self.peekv(["Ok", "(", "(", ")", ")"]):
            self.i += 5
            if self.peek() not in ("}", None):
                self.fail("`Ok(())` is not the tail expression")
            return
        # if let Some(interval) = self.save_interval { if self.state.i % interval == 0 { … } }
        if self.peekv(["if", "let", "Some", "(", "interval", ")", "=", "self", ".", "save_interval", "{"]):
            if gate != 0:
                self.fail("nested interval gate")
            self.i += 10
            self.eat("{")
            self.eat_seq(["if", "self", ".", "state", ".", "i", "%", "interval", "==", "0"])
            self.block(env, 2, cond)
            self.eat("}")
            return
        if t == "if":
            self.fail("unrecognised conditional")
        # for x in self.<field>.iter_mut() { … }
        if t == "for":
            self.i += 1
            var = self.ident()
            self.eat("in")
            p = self.path(env)
            self.eat_seq([".", "iter_mut", "(", ")"])
            env2 = dict(env)
            env2[var] = p + ("[*]",)
            self.block(env2, gate, cond)
            return
        # match [&mut] <path> { Enum::Variant(x) => stmt|block , … }
        if t == "match":
            self.i += 1
            if self.peek() == "&":
                self.i += 1
                if self.peek() == "mut":
                    self.i += 1
            p = self.path(env)
            self.eat("{")
            seen = []
            while self.peek() != "}":
                enum = self.ident()
                self.eat("::")
                var = self.ident()
                while self.peek() == "::":
                    self.i += 1
                    enum, var = var, self.ident()
                self.eat("(")
                binder = self.ident()
                self.eat(")")
                self.eat("=>")
                env2 = dict(env)
                if binder != "_":
                    env2[binder] = p + ("::" + var,)
                c2 = cond + ((p, var),)
                seen.append(var)
                if self.peek() == "{":
                    self.block(env2, gate, c2)
                    if self.peek() == ",":
                        self.i += 1
                else:
                    self.simple(env2, gate, c2, terminators=(",", "}"))
                    if self.peek() == ",":
                        self.i += 1
            self.eat("}")
            self.events.append({"kind": "match", "path": p, "variants": tuple(seen), "gate": gate, "cond": cond})
            return
        self.simple(env, gate, cond, terminators=(";", "}"))
        if self.peek() == ";":
            self.i += 1

    def simple(self, env, gate, cond, terminators):
        """one expression statement"""
        # self.solve_step()…?  (the only statement whose tail is not parsed token by token)
        if self.peekv(["self", ".", "solve_step", "(", ")"]):
            self.i += 5
            depth = 0
            q = False
            while True:
                t = self.peek()
                if t is None:
                    self.fail("unterminated solve_step statement")
                if depth == 0 and t in terminators:
                    break
                if t in "({[":
                    depth += 1
                elif t in ")}]":
                    depth -= 1
                if depth == 0 and t == "?":
                    q = True
                if t in ("step", "save_state", "set_save_interval", "history", "save_interval") or \
                        (t in ("+=", "-=", "=")):
                    self.fail("unexpected token `%s` inside the solve_step statement" % t)
                self.i += 1
            if not q:
                self.fail("the result of solve_step() is not propagated with `?`")
            self.events.append({"kind": "solve", "gate": gate, "cond": cond})
            return
        # self.history.push(self.state)
        if self.peekv(["self", ".", "history", ".", "push", "(", "self", ".", "state", ")"]):
            self.i += 10
            self.events.append({"kind": "push", "gate": gate, "cond": cond})
            return
        p = self.path(env)
        if self.peek() == "+=":
            self.i += 1
            if self.peek() != "1":
                self.fail("counter increment by something other than 1")
            self.i += 1
            self.events.append({"kind": "inc", "path": p, "gate": gate, "cond": cond})
            return
        if self.peek() == "=":
            self.i += 1
            if self.peek() != self.arg:
                self.fail("assignment of something other than the `%s` argument" % self.arg)
            self.i += 1
            if not p or p[-1] != "save_interval":
                self.fail("assignment to something other than a save_interval field")
            self.events.append({"kind": "assign", "path": p[:-1], "gate": gate, "cond": cond})
            return
        if self.peek() == ".":
            self.i += 1
            meth = self.ident()
            if meth not in ("step", "save_state", "set_save_interval"):
                self.i -= 1
                self.fail("call of unrecognised method `%s`" % meth)
            self.eat("(")
            if meth == "set_save_interval":
                self.eat(self.arg)
            self.eat(")")
            tried = False
            if self.peek() == "?":
                tried = True
                self.i += 1
            self.events.append({"kind": "call", "meth": meth, "path": p, "gate": gate, "cond": cond, "tried": tried})
            return
        self.fail("unrecognised statement")


def parse_body(txt, what, env=None, arg="save_interval"):
    p = P(txt, what, arg)
    p.stmts_until_end(env or {"self": ()})
    return p.events


# ----------------------------------------------------------------------------- derive(HistoryMethods)

HM_SKELETON_SHA1 = "9d62c6746d818ca634b3fdf4ea42817e9671345e"


def read_hm_derive(src):
    """semantics of derive(HistoryMethods), from its quote! templates"""
    txt = src.txt_s
    quotes = []
    skel = []
    i = 0
    for m in re.finditer(r"quote!\s*\{", txt):
        if m.start() < i:
            continue
        o = m.end() - 1
        c = match_close(src.txt, o)
        quotes.append(txt[o + 1:c])
        skel.append(txt[i:m.start()] + "QUOTE%d" % len(quotes))
        i = c + 1
    skel.append(txt[i:])
    skeleton = re.sub(r"\s+", "", "".join(skel))
    skel_digest = hashlib.sha1(skeleton.encode()).hexdigest()
    digest = skel_digest
    if skel_digest != HM_SKELETON_SHA1:
        raise ScanError(
            "%s: the macro code around the quote! templates changed (skeleton sha1 %s, expected %s); "
            "the scanner only understands the known control flow "
            "(struct_has_state / struct_has_save_interval / #[has_state] fields)" % (src.rel, digest, HM_SKELETON_SHA1))
    digest = hashlib.sha1((skeleton + "|" + "|".join(re.sub(r"\s+", "", clean(q)) for q in quotes)).encode()).hexdigest() + ":" + digest[:0]
    if len(quotes) != 6:
        raise ScanError("%s: expected 6 quote! templates, found %d" % (src.rel, len(quotes)))

    def fn_body(q, fname):
        q = clean(q)
        q = q.replace("#ident", "IDENT")
        m = re.fullmatch(r"\s*impl\s+IDENT\s*\{\s*pub\s+fn\s+%s\s*\(\s*&mut\s+self\s*\)\s*\{(.*)\}\s*\}\s*" % fname, q, re.S)
        if not m:
            raise ScanError("%s: quote! template for %s has an unexpected frame" % (src.rel, fname))
        b = m.group(1)
        b = re.sub(r"#\(\s*self\s*\.\s*#fields_with_state\s*\.\s*(step|save_state)\s*\(\s*\)\s*;\s*\)\s*\*", r"KIDS.\1();", b)
        b = b.replace("#self_save_state", "SELFSAVE.save_state();")
        if "#" in b:
            raise ScanError("%s: unrecognised interpolation in the %s template" % (src.rel, fname))
        return b

    env = {"self": (), "KIDS": ("KIDS",), "SELFSAVE": ("SELFSAVE",)}
    out = {}
    out["step_state"] = parse_body(fn_body(quotes[0], "step"), "hm_derive step (struct has state)", env)
    out["step_nostate"] = parse_body(fn_body(quotes[1], "step"), "hm_derive step (no state)", env)
    out["push_state"] = parse_body(clean(quotes[2]), "hm_derive self_save_state (struct has state)", env)
    out["push_nostate"] = parse_body(clean(quotes[3]), "hm_derive self_save_state (no state)", env)
    out["save_interval"] = parse_body(fn_body(quotes[4], "save_state"), "hm_derive save_state (has save_interval)", env)
    out["save_nointerval"] = parse_body(fn_body(quotes[5], "save_state"), "hm_derive save_state (no save_interval)", env)
    for k in ("push_state", "push_nostate"):
        for e in out[k]:
            if e["kind"] != "push":
                raise ScanError("hm_derive self_save_state template does something other than push")
    return out, digest


def read_history_vec_derive(src):
    t = re.sub(r"\s+", "", src.txt_s)
    need = [
        "pubfnpush(&mutself,value:#original_name){#(self.#field_names.push(value.#field_names);)*}",
        "pubfnlen(&self)->usize{self.#first_field.len()}",
        "letfirst_field=&field_names[0];",
    ]
    for frag in need:
        if frag not in t:
            raise ScanError("%s: expected fragment not found: %s" % (src.rel, frag))
    return hashlib.sha1(t.encode()).hexdigest()


# ----------------------------------------------------------------------------- the type table

FILES = {
    "hm": "rust/altrios-core/altrios-proc-macros/src/hm_derive.rs",
    "hv": "rust/altrios-core/altrios-proc-macros/src/history_vec_derive.rs",
    "loco": "rust/altrios-core/src/consist/locomotive/locomotive_model.rs",
    "conv": "rust/altrios-core/src/consist/locomotive/conventional_loco.rs",
    "bel": "rust/altrios-core/src/consist/locomotive/battery_electric_loco.rs",
    "hyb": "rust/altrios-core/src/consist/locomotive/hybrid_loco.rs",
    "fc": "rust/altrios-core/src/consist/locomotive/powertrain/fuel_converter.rs",
    "gen": "rust/altrios-core/src/consist/locomotive/powertrain/generator.rs",
    "res": "rust/altrios-core/src/consist/locomotive/powertrain/reversible_energy_storage.rs",
    "edrv": "rust/altrios-core/src/consist/locomotive/powertrain/electric_drivetrain.rs",
    "consist": "rust/altrios-core/src/consist/consist_model.rs",
    "loco_sim": "rust/altrios-core/src/consist/locomotive/loco_sim.rs",
    "consist_sim": "rust/altrios-core/src/consist/consist_sim.rs",
    "sst": "rust/altrios-core/src/train/set_speed_train_sim.rs",
    "slt": "rust/altrios-core/src/train/speed_limit_train_sim.rs",
    "fric": "rust/altrios-core/src/train/friction_brakes.rs",
    "tstate": "rust/altrios-core/src/train/train_state.rs",
    "tcfg": "rust/altrios-core/src/train/train_config.rs",
}

# struct -> file key.  Structs taking part in the cascades.
STRUCT_FILE = {
    "FuelConverter": "fc", "Generator": "gen", "ReversibleEnergyStorage": "res", "ElectricDrivetrain": "edrv",
    "ConventionalLoco": "conv", "BatteryElectricLoco": "bel", "HybridLoco": "hyb", "DummyLoco": "loco",
    "Locomotive": "loco", "Consist": "consist", "FricBrake": "fric",
    "LocomotiveSimulation": "loco_sim", "ConsistSimulation": "consist_sim",
    "SetSpeedTrainSim": "sst", "SpeedLimitTrainSim": "slt",
}
STATE_FILE = {
    "FuelConverterState": "fc", "GeneratorState": "gen", "ReversibleEnergyStorageState": "res",
    "ElectricDrivetrainState": "edrv", "LocomotiveState": "loco", "ConsistState": "consist",
    "FricBrakeState": "fric", "TrainState": "tstate",
}
ENUMS = {"PowertrainType": "loco"}
SIMS = [("loco", "LocomotiveSimulation"), ("consist", "ConsistSimulation"),
        ("setSpeed", "SetSpeedTrainSim"), ("speedLimit", "SpeedLimitTrainSim")]


class World:
    def __init__(self, root):
        self.root = root
        self.src = {k: Source(root, rel) for k, rel in FILES.items()}
        self.digest_parts = []
        self.hm, d = read_hm_derive(self.src["hm"])
        self.digest_parts.append(("hm_derive.rs", d))
        self.digest_parts.append(("history_vec_derive.rs", read_history_vec_derive(self.src["hv"])))
        self.structs = {}
        for name, fk in STRUCT_FILE.items():
            r = find_struct(self.src[fk], name)
            if r is None:
                raise ScanError("struct %s not found in %s" % (name, FILES[fk]))
            attrs, body, off = r
            derives = []
            for a in attrs:
                m = re.match(r"#\[\s*derive\s*\((.*)\)\s*\]$", a, re.S)
                if m:
                    derives += [x.strip() for x in m.group(1).split(",")]
            fields = parse_fields(self.src[fk], body, off)
            self.structs[name] = {"fields": fields, "derived": "HistoryMethods" in derives, "file": fk}
            self.note("struct " + name, re.sub(r"\s+", " ", body))
        self.variants = find_enum(self.src[ENUMS["PowertrainType"]], "PowertrainType")
        self.note("enum PowertrainType", repr(self.variants))
        # nobody else derives HistoryMethods / nobody else has these cascades
        self.census(root)
        self.memo = {}

    def note(self, what, text):
        self.digest_parts.append((what, hashlib.sha1(text.encode()).hexdigest()))

    # every struct of the crate deriving HistoryMethods must be in the table
    def census(self, root):
        base = os.path.join(root, "rust/altrios-core/src")
        known = set(STRUCT_FILE)
        for d, _, fs in os.walk(base):
            for f in fs:
                if not f.endswith(".rs"):
                    continue
                p = os.path.join(d, f)
                raw = open(p, encoding="utf-8").read()
                if "HistoryMethods" not in raw and "has_state" not in raw:
                    continue
                rel = os.path.relpath(p, root)
                s = Source(root, rel)
                for m in re.finditer(r"#\[\s*derive\s*\(([^\]]*)\)\s*\]", s.txt):
                    if "HistoryMethods" in m.group(1):
                        mm = re.compile(r"\bpub\s+struct\s+([A-Za-z_0-9]+)").search(s.txt, m.end())
                        if not mm:
                            raise ScanError("%s: derive(HistoryMethods) without a following pub struct" % s.where(m.start()))
                        if mm.group(1) not in known:
                            raise ScanError(
                                "%s: struct %s derives HistoryMethods but is not in the scanner's table "
                                "(a new component: add it to STRUCT_FILE and to the model)" % (s.where(m.start()), mm.group(1)))
                        if STRUCT_FILE[mm.group(1)] is None or FILES[STRUCT_FILE[mm.group(1)]] != rel:
                            raise ScanError("%s: struct %s is expected in %s" % (rel, mm.group(1), FILES[STRUCT_FILE[mm.group(1)]]))

    # ---- field helpers
    def field(self, sname, fname):
        for (n, ty, attrs) in self.structs[sname]["fields"]:
            if n == fname:
                return ty, attrs
        return None

    def has(self, sname, fname):
        return self.field(sname, fname) is not None

    @staticmethod
    def unwrap(ty):
        """(inner participating type name, wrapper) for T, Box<T>, Vec<T>"""
        m = re.fullmatch(r"(Box|Vec)<([A-Za-z_0-9]+)>", ty)
        if m:
            return m.group(2), m.group(1)
        if re.fullmatch(r"[A-Za-z_0-9]+", ty):
            return ty, None
        return None, None

    def participating(self, ty):
        inner, wrap = self.unwrap(ty)
        return inner in self.structs or inner in ENUMS

    def kids_of(self, sname):
        """ordered (field, inner type, wrapper) of fields whose type takes part in the cascades"""
        res = []
        for (n, ty, attrs) in self.structs[sname]["fields"]:
            if self.participating(ty):
                inner, wrap = self.unwrap(ty)
                res.append((n, inner, wrap, attrs))
        return res

    def init_i(self, sname):
        """initial value of the node's counter"""
        st = self.structs[sname]
        f = self.field(sname, "state")
        if f:
            sty = f[0]
            if sty not in STATE_FILE:
                raise ScanError("state type %s of %s is not in the scanner's table" % (sty, sname))
            s = self.src[STATE_FILE[sty]]
            impls = find_impls(s, r"Default for %s" % sty)
            if len(impls) != 1:
                raise ScanError("%s: expected exactly one `impl Default for %s`" % (s.rel, sty))
            fn = find_fn(s, impls, "default")
            if not fn:
                raise ScanError("%s: `impl Default for %s` has no fn default" % (s.rel, sty))
            body = fn[1]
            ms = re.findall(r"\bi\s*:\s*([^,}]+)[,}]", body)
            if len(ms) != 1 or not re.fullmatch(r"\d+", ms[0].strip()):
                raise ScanError("%s: cannot read the initial `i` of %s::default()" % (s.rel, sty))
            self.note("default i " + sty, ms[0].strip())
            # the state struct must really have an `i: usize` column
            r = find_struct(s, sty)
            if r is None or not any(n == "i" and ty == "usize" for (n, ty, _) in parse_fields(s, r[1], r[2])):
                raise ScanError("%s: %s has no `i: usize` field" % (s.rel, sty))
            return int(ms[0].strip())
        if self.has(sname, "i") and sname in [b for (_, b) in SIMS]:
            # simulation-level counter: read from `new`
            s = self.src[st["file"]]
            fn = find_fn(s, find_impls(s, re.escape(sname)), "new")
            if not fn:
                raise ScanError("%s: %s::new not found" % (s.rel, sname))
            ms = re.findall(r"\bi\s*:\s*([^,}]+)[,}]", fn[1])
            if len(ms) != 1 or not re.fullmatch(r"\d+", ms[0].strip()):
                raise ScanError("%s: cannot read the initial `i` in %s::new" % (s.rel, sname))
            self.note("new i " + sname, ms[0].strip())
            return int(ms[0].strip())
        return 0

    # ---- method bodies
    def method_events(self, tname, meth, boxed=False):
        """events of `meth` as called on a value of type `tname` (method resolution: an inherent
        method -- derived or hand-written -- wins over the LocoTrait impl; for Box<T> the trait
        impl for Box<T> wins over auto-deref)"""
        key = (tname, meth, boxed)
        if key in self.memo:
            return self.memo[key]
        ev = self._method_events(tname, meth, boxed)
        self.memo[key] = ev
        return ev

    def _method_events(self, tname, meth, boxed):
        if boxed:
            inner_file = self.src[STRUCT_FILE[tname]]
            impls = find_impls(inner_file, r"LocoTrait for Box<%s>" % tname)
            fn = find_fn(inner_file, impls, meth) if impls else None
            if fn:
                self.note("fn Box<%s>::%s" % (tname, meth), re.sub(r"\s+", " ", fn[1]))
                ev = parse_body(fn[1], "%s: <Box<%s> as LocoTrait>::%s" % (inner_file.rel, tname, meth))
                n = 0
                for e in ev:
                    if e["kind"] == "call" and e["meth"] == meth and e["path"] == ("deref",) and e["gate"] == 0:
                        n += 1
                    else:
                        raise ScanError("%s: <Box<%s> as LocoTrait>::%s is not a plain delegation" % (inner_file.rel, tname, meth))
                inner = self.method_events(tname, meth)
                return [dict(e, mult=e.get("mult", 1) * n) for e in inner] if n != 1 else inner
            return self.method_events(tname, meth)
        if tname in ENUMS:
            s = self.src[ENUMS[tname]]
            inh = find_fn(s, find_impls(s, re.escape(tname)), meth)
            if inh:
                raise ScanError("%s: enum %s has an inherent fn %s (unexpected)" % (s.rel, tname, meth))
            fn = find_fn(s, find_impls(s, r"LocoTrait for %s" % tname), meth)
            if not fn:
                raise ScanError("%s: <%s as LocoTrait>::%s not found" % (s.rel, tname, meth))
            self.note("fn %s::%s" % (tname, meth), re.sub(r"\s+", " ", fn[1]))
            return parse_body(fn[1], "%s: <%s as LocoTrait>::%s" % (s.rel, tname, meth))
        st = self.structs[tname]
        s = self.src[st["file"]]
        inh = find_fn(s, find_impls(s, re.escape(tname)), meth)
        if st["derived"] and meth in ("step", "save_state"):
            if inh:
                raise ScanError("%s: %s derives HistoryMethods and also defines fn %s" % (s.rel, tname, meth))
            return self.derived_events(tname, meth)
        if inh:
            self.note("fn %s::%s" % (tname, meth), re.sub(r"\s+", " ", inh[0] + inh[1]))
            self.check_sig(inh[0], tname, meth, s)
            return parse_body(inh[1], "%s: %s::%s" % (s.rel, tname, meth))
        fn = find_fn(s, find_impls(s, r"LocoTrait for %s" % tname), meth)
        if fn:
            self.note("fn <%s as LocoTrait>::%s" % (tname, meth), re.sub(r"\s+", " ", fn[0] + fn[1]))
            return parse_body(fn[1], "%s: <%s as LocoTrait>::%s" % (s.rel, tname, meth))
        return None

    @staticmethod
    def check_sig(sig, tname, meth, s):
        sig = re.sub(r"\s+", " ", sig)
        if meth == "set_save_interval":
            if not re.search(r"\(\s*&mut self\s*,\s*save_interval\s*:\s*Option<usize>\s*,?\s*\)", sig):
                raise ScanError("%s: %s::set_save_interval has an unexpected signature: %s" % (s.rel, tname, sig))

    def derived_events(self, tname, meth):
        """instantiate the derive templates for struct `tname`"""
        has_state = self.has(tname, "state")
        has_iv = self.has(tname, "save_interval")
        hs_fields = [n for (n, ty, attrs) in self.structs[tname]["fields"] if "has_state" in attrs]
        for n in hs_fields:
            ty = self.field(tname, n)[0]
            if not self.participating(ty):
                raise ScanError("%s.%s is #[has_state] but its type %s is not in the scanner's table" % (tname, n, ty))
        if meth == "step":
            tpl = self.hm["step_state"] if has_state else self.hm["step_nostate"]
            push = []
        else:
            tpl = self.hm["save_interval"] if has_iv else self.hm["save_nointerval"]
            push = self.hm["push_state"] if has_state else self.hm["push_nostate"]
        out = []
        for e in tpl:
            if e["kind"] == "call" and e["path"] == ("KIDS",):
                for n in hs_fields:
                    out.append(dict(e, path=(n,)))
            elif e["kind"] == "call" and e["path"] == ("SELFSAVE",):
                for pe in push:
                    out.append(dict(pe, gate=e["gate"]))
            else:
                out.append(dict(e))
        if not has_state and any(e["kind"] in ("inc", "push") or e["gate"] for e in out):
            raise ScanError("derive(HistoryMethods) on %s touches `state` but the struct has none" % tname)
        return out


# ----------------------------------------------------------------------------- summarising one node

def summarise(w, tname, variant=None, boxed=False):
    """static summary of the node for a value of struct `tname`:
       hasI/hasHist/hasInterval, stepSelf, saveSelf, setSelf, per-kid edge counts, deep assignments"""
    st = w.structs[tname]
    has_state = w.has(tname, "state")
    is_sim = tname in [b for (_, b) in SIMS]
    has_i_field = w.has(tname, "i") and w.field(tname, "i")[0] == "usize" and is_sim
    info = {
        "hasI": has_state or has_i_field,
        "hasHist": w.has(tname, "history"),
        "hasInterval": w.has(tname, "save_interval"),
        "stepSelf": 0, "saveSelf": 0, "setSelf": 0,
    }
    if info["hasHist"] and not has_state:
        raise ScanError("%s has `history` but no `state`" % tname)
    if info["hasInterval"] and w.field(tname, "save_interval")[0] != "Option<usize>":
        raise ScanError("%s.save_interval is not Option<usize>" % tname)
    kids = w.kids_of(tname)
    edges = {n: {"stepCalls": 0, "saveOut": 0, "saveIn": 0, "setCalls": 0} for (n, _, _, _) in kids}
    kid_wrap = {n: wrap for (n, _, wrap, _) in kids}
    deep = []   # (cond, path segments)
    counter_path = ("state", "i") if has_state else ("i",)

    def edge_of(path, what):
        """a call on self.<kid> / every element of self.<kid>"""
        if len(path) == 1 and path[0] in edges and kid_wrap[path[0]] in (None, "Box"):
            return path[0]
        if len(path) == 2 and path[0] in edges and kid_wrap[path[0]] == "Vec" and path[1] == "[*]":
            return path[0]
        raise ScanError("%s::%s: call on `%s` which is not a direct nested object of the struct" % (tname, what, ".".join(path)))

    for meth in ("step", "save_state", "set_save_interval"):
        ev = w.method_events(tname, meth, boxed)
        if ev is None:
            if meth == "set_save_interval":
                continue   # leaf components are written by their owners
            raise ScanError("%s has no %s()" % (tname, meth))
        for e in ev:
            mult = e.get("mult", 1)
            if e.get("cond") and not (tname == "Locomotive" and meth == "set_save_interval"):
                raise ScanError("%s::%s: events under a `match` are only understood for the PowertrainType "
                                "dispatch and Locomotive::set_save_interval" % (tname, meth))
            k = e["kind"]
            if k == "match":
                if not (tname == "Locomotive" and meth == "set_save_interval"):
                    raise ScanError("%s::%s: unexpected match" % (tname, meth))
                if e["path"] != ("loco_type",):
                    raise ScanError("Locomotive::set_save_interval matches on something other than self.loco_type")
                missing = [v for (v, _) in w.variants if v not in e["variants"]]
                if missing:
                    raise ScanError("Locomotive::set_save_interval: no arm for variant(s) %s" % missing)
                continue
            if meth == "step":
                if e["gate"] != 0:
                    raise ScanError("%s::step: interval gate inside step()" % tname)
                if k == "inc":
                    if e["path"] != counter_path:
                        raise ScanError("%s::step increments `%s`, expected `%s`" % (tname, ".".join(e["path"]), ".".join(counter_path)))
                    info["stepSelf"] += mult
                elif k == "call" and e["meth"] == "step":
                    edges[edge_of(e["path"], "step")]["stepCalls"] += mult
                elif k == "call" and e["meth"] == "save_state" and e["path"] == () and is_sim:
                    continue  # simulation step(): phases handled separately
                elif k == "solve" and is_sim:
                    continue
                else:
                    raise ScanError("%s::step: unexpected %s" % (tname, k))
            elif meth == "save_state":
                if k == "push":
                    if info["hasInterval"] and e["gate"] != 2:
                        raise ScanError("%s::save_state pushes outside its interval gate" % tname)
                    if not info["hasInterval"] and e["gate"] != 0:
                        raise ScanError("%s::save_state: gate without save_interval" % tname)
                    info["saveSelf"] += mult
                elif k == "call" and e["meth"] == "save_state":
                    ed = edges[edge_of(e["path"], "save_state")]
                    if e["gate"] == 0:
                        ed["saveOut"] += mult
                    elif e["gate"] == 2:
                        ed["saveIn"] += mult
                    else:
                        raise ScanError("%s::save_state: call between the two gate conditions" % tname)
                else:
                    raise ScanError("%s::save_state: unexpected %s" % (tname, k))
            else:
                if e["gate"] != 0:
                    raise ScanError("%s::set_save_interval: interval gate" % tname)
                if k == "assign":
                    if e["path"] == ():
                        if e.get("cond"):
                            raise ScanError("%s::set_save_interval assigns self.save_interval conditionally" % tname)
                        info["setSelf"] += mult
                    else:
                        deep.append((e.get("cond", ()), e["path"]))
                elif k == "call" and e["meth"] == "set_save_interval":
                    if e.get("cond"):
                        raise ScanError("%s::set_save_interval: conditional cascade call" % tname)
                    edges[edge_of(e["path"], "set_save_interval")]["setCalls"] += mult
                else:
                    raise ScanError("%s::set_save_interval: unexpected %s" % (tname, k))
    return info, kids, edges, deep


def summarise_enum(w, ename):
    """per variant: payload type, wrapper, and how the dispatch calls it"""
    res = []
    for idx, (v, ty) in enumerate(w.variants):
        inner, wrap = w.unwrap(ty)
        if inner not in w.structs or wrap not in (None, "Box"):
            raise ScanError("PowertrainType::%s has payload type %s which is not in the scanner's table" % (v, ty))
        res.append({"variant": v, "type": inner, "boxed": wrap == "Box", "tag": idx,
                    "stepCalls": 0, "saveOut": 0, "saveIn": 0, "setCalls": 0})
    byname = {r["variant"]: r for r in res}
    for meth, fld in (("step", "stepCalls"), ("save_state", "saveOut")):
        ev = w.method_events(ename, meth)
        saw_match = False
        for e in ev:
            if e["kind"] == "match":
                if e["path"] != () or e["cond"]:
                    raise ScanError("%s::%s: match on something other than self" % (ename, meth))
                missing = [v for (v, _) in w.variants if v not in e["variants"]]
                if missing:
                    raise ScanError("%s::%s: no arm for %s" % (ename, meth, missing))
                saw_match = True
                continue
            if e["kind"] != "call" or e["meth"] != meth or e["gate"] != 0 or len(e["cond"]) != 1:
                raise ScanError("%s::%s: unexpected %s" % (ename, meth, e["kind"]))
            (cp, cv) = e["cond"][0]
            if cp != () or e["path"] != ("::" + cv,):
                raise ScanError("%s::%s: arm %s calls %s" % (ename, meth, cv, ".".join(e["path"])))
            byname[cv][fld] += 1
        if not saw_match:
            raise ScanError("%s::%s does not dispatch with a match on self" % (ename, meth))
    return res


# ----------------------------------------------------------------------------- simulations

def sim_facts(w, sname):
    st = w.structs[sname]
    s = w.src[st["file"]]
    impls = find_impls(s, re.escape(sname))
    # ---- step(): phase order
    ev = w.method_events(sname, "step")
    phases = []
    for e in ev:
        if e["kind"] == "solve":
            ph = "solve"
        elif e["kind"] == "call" and e["meth"] == "save_state" and e["path"] == ():
            ph = "save"
        elif e["kind"] == "inc" or (e["kind"] == "call" and e["meth"] == "step"):
            ph = "advance"
        else:
            raise ScanError("%s::step: unexpected %s" % (sname, e["kind"]))
        if not phases or phases[-1] != ph:
            phases.append(ph)
    if sorted(phases) != ["advance", "save", "solve"]:
        raise ScanError("%s::step: phases %s are not one solve, one save, one contiguous advance" % (sname, phases))
    # ---- walk(): save_state() calls in front of the loop, step()? inside
    walks = {}
    names = ["walk"] + (["walk_internal", "walk_timed_path"] if sname == "SpeedLimitTrainSim" else [])
    raw = {}
    for wn in names:
        fn = find_fn(s, impls, wn)
        if not fn:
            raise ScanError("%s::%s not found" % (sname, wn))
        w.note("fn %s::%s" % (sname, wn), re.sub(r"\s+", " ", fn[1]))
        raw[wn] = analyse_walk(fn[1], "%s: %s::%s" % (s.rel, sname, wn))
    for wn in names:
        a = raw[wn]
        saves = a["saves_before"]
        steps = a["steps_in_loop"]
        if a["calls_internal"]:
            if "walk_internal" not in raw:
                raise ScanError("%s::%s calls walk_internal which does not exist" % (sname, wn))
            if raw["walk_internal"]["saves_before"] != 0:
                raise ScanError("%s::walk_internal calls save_state()" % sname)
            steps += raw["walk_internal"]["steps_in_loop"]
        if steps == 0:
            raise ScanError("%s::%s never calls self.step()? in a loop" % (sname, wn))
        walks[wn] = saves
    # ---- new(): what happens to the interval
    fn = find_fn(s, impls, "new")
    if not fn:
        raise ScanError("%s::new not found" % sname)
    w.note("fn %s::new" % sname, re.sub(r"\s+", " ", fn[0] + fn[1]))
    prog = analyse_new(w, sname, fn, s)
    return phases, walks, prog


def analyse_walk(body, what):
    toks = tokenize(body, what)
    vals = [t[1] for t in toks]
    res = {"saves_before": 0, "steps_in_loop": 0, "calls_internal": False}
    stack = []          # 'loop' | 'blk'
    pending_loop = False
    seen_loop_or_internal = False
    i = 0
    n = len(vals)
    while i < n:
        v = vals[i]
        if v in ("while", "loop", "for"):
            pending_loop = True
        if v == "{":
            stack.append("loop" if pending_loop else "blk")
            if pending_loop:
                seen_loop_or_internal = True
            pending_loop = False
        elif v == "}":
            stack.pop()
        elif v == "self" and vals[i + 1:i + 5] == [".", "save_state", "(", ")"]:
            if "loop" in stack or seen_loop_or_internal:
                raise ScanError("%s: self.save_state() inside or after the stepping loop" % what)
            res["saves_before"] += 1
            i += 5
            continue
        elif v == "self" and vals[i + 1:i + 5] == [".", "step", "(", ")"]:
            if "loop" not in stack:
                raise ScanError("%s: self.step() outside a loop" % what)
            if i + 5 >= n or vals[i + 5] != "?":
                raise ScanError("%s: the result of self.step() is not propagated with `?`" % what)
            res["steps_in_loop"] += 1
            i += 6
            continue
        elif v == "self" and vals[i + 1:i + 5] == [".", "walk_internal", "(", ")"]:
            if "loop" in stack:
                raise ScanError("%s: walk_internal() inside a loop" % what)
            res["calls_internal"] = True
            seen_loop_or_internal = True
            i += 5
            continue
        elif v in ("save_state", "step", "history", "save_interval", "set_save_interval", "walk", "walk_internal"):
            raise ScanError("%s: unexplained use of `%s`" % (what, v))
        elif v in ("+=", "-=") and i >= 2 and vals[i - 1] == "i" and vals[i - 2] == ".":
            raise ScanError("%s: the walk changes a step counter itself" % what)
        elif v == "=" and i >= 2 and vals[i - 1] == "i" and vals[i - 2] == ".":
            raise ScanError("%s: the walk assigns a step counter" % what)
        i += 1
    return res


def analyse_new(w, sname, fn, s):
    sig, body, _ = fn
    if not re.search(r"\bsave_interval\s*:\s*Option<usize>", sig):
        raise ScanError("%s: %s::new has no `save_interval: Option<usize>` parameter" % (s.rel, sname))
    m = re.search(r"\blet\s+mut\s+([a-z_0-9]+)\s*=\s*Self\s*\{", body)
    if not m:
        raise ScanError("%s: %s::new: cannot find `let mut x = Self {…}`" % (s.rel, sname))
    var = m.group(1)
    o = m.end() - 1
    c = match_close(body, o)
    lit = body[o + 1:c]
    prog = []
    names = []
    for part in split_top(lit):
        p = part.strip()
        mm = re.match(r"([a-z_0-9]+)\s*(?::\s*(.*))?$", p, re.S)
        if not mm:
            raise ScanError("%s: %s::new: struct literal part %r not understood" % (s.rel, sname, p[:40]))
        names.append(mm.group(1))
        if mm.group(1) == "save_interval":
            if mm.group(2) not in (None, "save_interval"):
                raise ScanError("%s: %s::new initialises save_interval with %r" % (s.rel, sname, mm.group(2)))
            prog.append(("assignSelf", None))
    if w.has(sname, "save_interval") and "save_interval" not in names:
        raise ScanError("%s: %s::new does not initialise save_interval" % (s.rel, sname))
    rest = body[c + 1:]
    toks = [t[1] for t in tokenize(rest, "%s::new" % sname)]
    i = 0
    kidnames = [n for (n, _, _, _) in w.kids_of(sname)]
    while i < len(toks):
        if toks[i] == "set_save_interval":
            # walk back over `var(.kid)?.`
            if toks[i + 1:i + 4] != ["(", "save_interval", ")"]:
                raise ScanError("%s: %s::new: set_save_interval called with something other than save_interval" % (s.rel, sname))
            if toks[i - 1] != ".":
                raise ScanError("%s: %s::new: unexpected set_save_interval form" % (s.rel, sname))
            if toks[i - 2] == var:
                prog.append(("callSelf", None))
            elif toks[i - 2] in kidnames and toks[i - 3] == "." and toks[i - 4] == var:
                prog.append(("callKid", toks[i - 2]))
            else:
                raise ScanError("%s: %s::new: set_save_interval on an unexpected receiver" % (s.rel, sname))
        elif toks[i] == "save_interval" and not (toks[i - 1] == "(" and toks[i - 2] == "set_save_interval"):
            raise ScanError("%s: %s::new: unexplained use of save_interval after the struct literal" % (s.rel, sname))
        elif toks[i] in ("history", "step", "save_state"):
            raise ScanError("%s: %s::new: unexplained use of %s" % (s.rel, sname, toks[i]))
        i += 1
    return prog


# ----------------------------------------------------------------------------- census of mutation sites

def mutation_census(w):
    """every place of the anchored files that writes a step counter, pushes a history or writes a
    save_interval must lie inside a function the scanner analysed (or be a known, explained site)"""
    explained = {
        # file key -> list of (regex on the whitespace-normalised line, reason)
        "hyb": [(r"^self\.i \+= 1;", "HybridLoco.i: private counter of the golden-section-search interval, not a step counter of the history machinery")],
    }
    analysed_fns = {
        "loco": [("LocoTrait for PowertrainType", ["step", "save_state"]), ("LocoTrait for DummyLoco", ["step", "save_state"]),
                 ("LocoTrait for Locomotive", ["step", "save_state"]), ("Locomotive", ["set_save_interval"])],
        "consist": [("LocoTrait for Consist", ["step", "save_state"]), ("Consist", ["set_save_interval", "new"])],
        "loco_sim": [("LocomotiveSimulation", ["new", "step", "save_state", "walk", "set_save_interval"])],
        "consist_sim": [("ConsistSimulation", ["new", "step", "save_state", "walk", "set_save_interval"])],
        "sst": [("SetSpeedTrainSim", ["new", "step", "save_state", "walk", "set_save_interval"])],
        "slt": [("SpeedLimitTrainSim", ["new", "step", "save_state", "walk", "walk_internal", "walk_timed_path", "set_save_interval"])],
        "conv": [], "bel": [], "hyb": [], "fric": [], "fc": [], "gen": [], "res": [], "edrv": [],
    }
    pat = re.compile(r"(\.\s*i\s*(\+=|-=|=(?!=)))|(history\s*\.\s*(push|pop|clear)\s*\()|(\.\s*save_interval\s*=(?!=))|(\.\s*history\s*=(?!=))|(\.\s*state\s*=(?!=))")
    # in files that are not anchored only writes through `state` / `history` / `save_interval` are looked for
    pat_other = re.compile(r"(state\s*\.\s*i\s*(\+=|-=|=(?!=)))|(history\s*\.\s*(push|pop|clear)\s*\()|(\.\s*save_interval\s*=(?!=))|(\.\s*history\s*=(?!=))")

    def check_file(s, spans, rx, fk):
        spans = list(spans)
        # test modules are not part of the cascades
        for m in re.finditer(r"#\[cfg\(test\)\]\s*(?:pub\s+)?mod\s+\w+\s*\{", s.txt):
            o = m.end() - 1
            spans.append((o, match_close(s.txt, o)))
        for m in rx.finditer(s.txt):
            off = m.start()
            if any(a <= off < b for (a, b) in spans):
                continue
            ls = s.txt.rfind("\n", 0, off) + 1
            le = s.txt.find("\n", off)
            line = re.sub(r"\s+", " ", s.txt[ls:le]).strip()
            if any(re.search(r, line) for (r, _) in explained.get(fk, [])):
                continue
            raise ScanError("%s: `%s` writes a step counter / history / save_interval outside the functions "
                            "the scanner analyses" % (s.where(off), line))

    anchored = set()
    for fk, spec in analysed_fns.items():
        s = w.src[fk]
        anchored.add(os.path.normpath(s.path))
        spans = []
        for hdr, fns in spec:
            impls = find_impls(s, re.escape(hdr).replace("\\ ", " "))
            for f in fns:
                fn = find_fn(s, impls, f)
                if fn:
                    spans.append((fn[2], fn[2] + len(fn[1])))
        check_file(s, spans, pat, fk)
    # every other source file of the crate (files that are test modules as a whole are skipped)
    base = os.path.join(w.root, "rust/altrios-core/src")
    for d, _, fs in os.walk(base):
        for f in sorted(fs):
            p = os.path.normpath(os.path.join(d, f))
            if not f.endswith(".rs") or p in anchored or f in ("tests.rs", "test.rs", "testing.rs"):
                continue
            check_file(Source(w.root, os.path.relpath(p, w.root)), [], pat_other, None)


# ----------------------------------------------------------------------------- Lean emission

def lean_str(s):
    return '"' + s.replace("\\", "\\\\").replace('"', '\\"') + '"'


def lean_bool(b):
    return "true" if b else "false"


def lean_list(xs):
    return "[" + ", ".join(xs) + "]"


def lean_info(name, info, set_deep, edge):
    """edge: dict of tag/stepCalls/saveOut/saveIn/setCalls whose values are ints or Lean expressions"""
    return ("{ name := %s, hasI := %s, hasHist := %s, hasInterval := %s, stepSelf := %d, saveSelf := %d, "
            "setSelf := %d, setDeep := %s, tag := %s, stepCalls := %s, saveOut := %s, saveIn := %s, setCalls := %s }" % (
                name, lean_bool(info["hasI"]), lean_bool(info["hasHist"]),
                lean_bool(info["hasInterval"]), info["stepSelf"], info["saveSelf"], info["setSelf"], set_deep,
                edge["tag"], edge["stepCalls"], edge["saveOut"], edge["saveIn"], edge["setCalls"]))


class Emitter:
    def __init__(self, w):
        self.w = w
        self.enum = summarise_enum(w, "PowertrainType")
        self.sum = {}

    def summary(self, tname, boxed=False):
        k = (tname, boxed)
        if k not in self.sum:
            self.sum[k] = summarise(self.w, tname, boxed=boxed)
        return self.sum[k]

    def tag_of(self, tname, field):
        for idx, (n, _, _, _) in enumerate(self.w.kids_of(tname)):
            if n == field:
                return idx
        raise ScanError("%s has no nested object `%s`" % (tname, field))

    def resolve_deep(self, tname, path):
        """access path (fields, '::Variant', 'deref') from a struct -> list of edge tags"""
        tags = []
        cur = tname
        cur_is_enum = False
        for seg in path:
            if seg == "deref":
                continue
            if seg.startswith("::"):
                if not cur_is_enum:
                    raise ScanError("deep assignment path goes through a variant of a non-enum")
                v = [r for r in self.enum if r["variant"] == seg[2:]]
                if not v:
                    raise ScanError("unknown variant %s" % seg)
                tags.append(v[0]["tag"])
                cur = v[0]["type"]
                cur_is_enum = False
                continue
            if cur_is_enum:
                raise ScanError("deep assignment path takes a field of the enum itself")
            if seg == "[*]":
                raise ScanError("deep assignment through a Vec is not understood")
            tags.append(self.tag_of(cur, seg))
            ty = self.w.field(cur, seg)[0]
            inner, wrap = self.w.unwrap(ty)
            if wrap == "Vec":
                raise ScanError("deep assignment through a Vec is not understood")
            cur = inner
            cur_is_enum = inner in ENUMS
        if cur_is_enum or not self.w.has(cur, "save_interval"):
            raise ScanError("deep assignment to %s which has no save_interval" % cur)
        return tags

    def leafish(self, name, tname, edge, boxed=False, indent="      "):
        """literal Tree for a struct whose nested objects are plain structs (components, variants, FricBrake)"""
        info, kids, edges, deep = self.summary(tname, boxed)
        if deep:
            raise ScanError("%s::set_save_interval: deep assignments are only understood in Locomotive" % tname)
        kid_txt = []
        for idx, (n, inner, wrap, _) in enumerate(kids):
            if wrap == "Vec" or inner in ENUMS or inner in ("Locomotive", "Consist"):
                raise ScanError("%s.%s: nested %s not expected below a powertrain variant" % (tname, n, inner))
            e = dict(edges[n], tag=idx)
            kid_txt.append(self.leafish(n, inner, e, boxed=(wrap == "Box"), indent=indent + "  "))
        return "%s.node %s %d none []\n%s  %s" % (
            "", lean_info(lean_str(name), info, "[]", edge), self.w.init_i(tname), indent,
            "[" + (",\n" + indent + "   ").join(kid_txt) + "]")

    def emit(self, digest):
        w = self.w
        L = []
        A = L.append
        A("/- GENERATED by /verif/scan/scan_history.py from the Rust sources -- do not edit.")
        A("   source digest: %s -/" % digest)
        A("import Altrios.History")
        A("namespace Generated.HistoryTree")
        A("open Altrios.Hist")
        A("")
        A("def scanOk : Bool := true")
        A("def scanError : String := \"\"")
        A("def sourceDigest : String := %s" % lean_str(digest))
        A("")
        A("/-- variants of `enum PowertrainType` -/")
        A("inductive Variant where")
        for r in self.enum:
            A("  | %s" % r["variant"])
        A("  deriving Repr, DecidableEq")
        A("")
        A("def Variant.all : List Variant := %s" % lean_list(["." + r["variant"] for r in self.enum]))
        A("def Variant.name : Variant → String")
        for r in self.enum:
            A("  | .%s => %s" % (r["variant"], lean_str(r["variant"])))
        A("def Variant.ofName (s : String) : Option Variant :=")
        A("  Variant.all.find? (fun v => v.name == s)")
        A("")
        # ---- powertrain variants
        A("/-- the payload of each `PowertrainType` variant, as called by the enum's `match self` dispatch -/")
        A("def variantTree : Variant → Tree")
        for r in self.enum:
            edge = {k: r[k] for k in ("tag", "stepCalls", "saveOut", "saveIn", "setCalls")}
            A("  | .%s =>\n      %s" % (r["variant"], self.leafish(r["variant"], r["type"], edge, boxed=r["boxed"])))
        A("")
        # ---- Locomotive
        info, kids, edges, deep = self.summary("Locomotive")
        if [k[1] for k in kids] != ["PowertrainType"]:
            raise ScanError("Locomotive: expected exactly one nested object (loco_type: PowertrainType), found %s" % [k[0] for k in kids])
        lt = kids[0][0]
        A("/-- `Locomotive::set_save_interval` assigns these nested `save_interval` fields directly -/")
        A("def locoSetDeep : Variant → List (List Nat)")
        for r in self.enum:
            paths = []
            for (cond, path) in deep:
                if len(cond) != 1 or cond[0][0] != (lt,):
                    raise ScanError("Locomotive::set_save_interval: deep assignment outside the match on self.%s" % lt)
                if cond[0][1] == r["variant"]:
                    paths.append(lean_list([str(t) for t in self.resolve_deep("Locomotive", path)]))
            A("  | .%s => %s" % (r["variant"], lean_list(paths)))
        A("")
        A("def locomotiveWith (nm : String) (tag sc so si st : Nat) (v : Variant) : Tree :=")
        ptinfo = {"hasI": False, "hasHist": False, "hasInterval": False, "stepSelf": 0, "saveSelf": 0, "setSelf": 0}
        e_pt = dict(edges[lt], tag=0)
        A("  .node %s %d none []" % (
            lean_info("nm", info, "(locoSetDeep v)", {"tag": "tag", "stepCalls": "sc", "saveOut": "so", "saveIn": "si", "setCalls": "st"}),
            w.init_i("Locomotive")))
        A("    [.node %s 0 none [] [variantTree v]]" % lean_info(lean_str(lt), ptinfo, "[]", e_pt))
        A("")
        # ---- Consist
        cinfo, ckids, cedges, cdeep = self.summary("Consist")
        if cdeep:
            raise ScanError("Consist::set_save_interval: deep assignments not understood")
        if [(k[1], k[2]) for k in ckids] != [("Locomotive", "Vec")]:
            raise ScanError("Consist: expected exactly one nested collection (loco_vec: Vec<Locomotive>), found %s" % [k[0] for k in ckids])
        lv = ckids[0][0]
        ce = cedges[lv]
        A("/-- one element of `Consist.loco_vec`, as called by the loops of `Consist::{step, save_state, set_save_interval}` -/")
        A("def consistLoco (v : Variant) : Tree :=")
        A("  locomotiveWith %s 0 %d %d %d %d v" % (lean_str(lv), ce["stepCalls"], ce["saveOut"], ce["saveIn"], ce["setCalls"]))
        A("")
        A("def consistWith (nm : String) (tag sc so si st : Nat) (vs : List Variant) : Tree :=")
        A("  .node %s %d none []" % (
            lean_info("nm", cinfo, "[]", {"tag": "tag", "stepCalls": "sc", "saveOut": "so", "saveIn": "si", "setCalls": "st"}),
            w.init_i("Consist")))
        A("    (vs.map consistLoco)")
        A("")
        # ---- simulations
        A("inductive Kind where")
        for (k, _) in SIMS:
            A("  | %s" % k)
        A("  deriving Repr, DecidableEq")
        A("def Kind.all : List Kind := %s" % lean_list(["." + k for (k, _) in SIMS]))
        A("def Kind.name : Kind → String")
        for (k, sname) in SIMS:
            A("  | .%s => %s" % (k, lean_str(k)))
        A("def Kind.ofName (s : String) : Option Kind :=")
        A("  Kind.all.find? (fun k => k.name == s)")
        A("")
        first_variant = "." + self.enum[0]["variant"]
        shape_lines = []
        order_lines = []
        walk_lines = []
        timed_lines = []
        new_lines = []
        for (k, sname) in SIMS:
            info, kids, edges, deep = self.summary(sname)
            kid_txt = []
            for idx, (n, inner, wrap, _) in enumerate(kids):
                e = edges[n]
                args = "%s %d %d %d %d %d" % (lean_str(n), idx, e["stepCalls"], e["saveOut"], e["saveIn"], e["setCalls"])
                if inner == "Locomotive" and wrap is None:
                    kid_txt.append("locomotiveWith %s (vs.headD %s)" % (args, first_variant))
                elif inner == "Consist" and wrap is None:
                    kid_txt.append("consistWith %s vs" % args)
                elif inner in w.structs and wrap is None and inner not in ("Locomotive", "Consist"):
                    kid_txt.append(self.leafish(n, inner, dict(e, tag=idx), indent="        "))
                else:
                    raise ScanError("%s.%s: nested %s%s not understood" % (sname, n, inner, "" if not wrap else " in " + wrap))
            sd = []
            for (cond, path) in deep:
                if cond:
                    raise ScanError("%s::set_save_interval: conditional deep assignment" % sname)
                sd.append(lean_list([str(t) for t in self.resolve_deep(sname, path)]))
            root_edge = {"tag": 0, "stepCalls": 1, "saveOut": 1, "saveIn": 0, "setCalls": 1}
            shape_lines.append("  | .%s, vs =>\n      .node %s %d none []\n        [%s]" % (
                k, lean_info(lean_str(sname), info, lean_list(sd), root_edge), w.init_i(sname), ",\n         ".join(kid_txt)))
            phases, walks, prog = sim_facts(w, sname)
            order_lines.append("  | .%s => %s" % (k, lean_list(["." + p for p in phases])))
            walk_lines.append("  | .%s => %d" % (k, walks["walk"]))
            timed_lines.append("  | .%s => %s" % (k, ("some %d" % walks["walk_timed_path"]) if "walk_timed_path" in walks else "none"))
            acts = []
            for (a, arg) in prog:
                if a == "callKid":
                    acts.append(".callKid %d" % self.tag_of(sname, arg))
                else:
                    acts.append("." + a)
            new_lines.append("  | .%s => %s" % (k, lean_list(acts)))
        A("/-- the object tree of each simulation kind (`.loco` uses the first variant of the list) -/")
        A("def shape : Kind → List Variant → Tree")
        L.extend(shape_lines)
        A("")
        A("/-- phase order of `<Sim>::step()` -/")
        A("def stepOrder : Kind → List Phase")
        L.extend(order_lines)
        A("")
        A("/-- number of `self.save_state()` calls in front of the stepping loop of `<Sim>::walk()` -/")
        A("def walkInitSaves : Kind → Nat")
        L.extend(walk_lines)
        A("")
        A("/-- same for `walk_timed_path` (only the speed-limited simulation has one) -/")
        A("def timedInitSaves : Kind → Option Nat")
        L.extend(timed_lines)
        A("")
        A("/-- what `<Sim>::new(…, save_interval)` does with the interval -/")
        A("def newProg : Kind → List NewAct")
        L.extend(new_lines)
        A("")
        # ---- SpeedLimitTrainSimVec::set_save_interval
        A("/-- `SpeedLimitTrainSimVec::set_save_interval`: calls of `set_save_interval(save_interval)` on every element -/")
        A("def simVecSetCalls : Nat := %d" % sim_vec_facts(w))
        A("")
        A("end Generated.HistoryTree")
        return "\n".join(L) + "\n"


def sim_vec_facts(w):
    s = w.src["tcfg"]
    impls = find_impls(s, r"SpeedLimitTrainSimVec")
    fn = find_fn(s, impls, "set_save_interval")
    if not fn:
        raise ScanError("%s: SpeedLimitTrainSimVec::set_save_interval not found" % s.rel)
    w.note("fn SpeedLimitTrainSimVec::set_save_interval", re.sub(r"\s+", " ", fn[1]))
    b = re.sub(r"\s+", "", fn[1])
    m = re.fullmatch(r"self\.0\.iter_mut\(\)\.for_each\(\|(\w+)\|((?:\1\.set_save_interval\(save_interval\);?)*)\);?", b)
    if not m:
        m2 = re.fullmatch(r"self\.0\.iter_mut\(\)\.for_each\(\|(\w+)\|\{((?:\1\.set_save_interval\(save_interval\);?)*)\}\);?", b)
        if not m2:
            raise ScanError("%s: SpeedLimitTrainSimVec::set_save_interval has an unexpected body: %s" % (s.rel, b[:120]))
        m = m2
    return m.group(2).count("set_save_interval")


STUB = """/- GENERATED by /verif/scan/scan_history.py -- the scan FAILED; this is a stub so that the driver still links.
   `Proofs/C19.lean` does not build against it (theorem `scan_ok`). -/
import Altrios.History
namespace Generated.HistoryTree
open Altrios.Hist
def scanOk : Bool := false
def scanError : String := %s
def sourceDigest : String := ""
inductive Variant where
  | Unknown
  deriving Repr, DecidableEq
def Variant.all : List Variant := [.Unknown]
def Variant.name : Variant → String
  | .Unknown => "Unknown"
def Variant.ofName (_ : String) : Option Variant := none
def variantTree : Variant → Tree
  | .Unknown => .node { name := "?", hasI := false, hasHist := false, hasInterval := false, stepSelf := 0, saveSelf := 0, setSelf := 0, setDeep := [], tag := 0, stepCalls := 0, saveOut := 0, saveIn := 0, setCalls := 0 } 0 none [] []
def locoSetDeep : Variant → List (List Nat)
  | .Unknown => []
def locomotiveWith (_nm : String) (_tag _sc _so _si _st : Nat) (v : Variant) : Tree := variantTree v
def consistLoco (v : Variant) : Tree := variantTree v
def consistWith (_nm : String) (_tag _sc _so _si _st : Nat) (_vs : List Variant) : Tree := variantTree .Unknown
inductive Kind where
  | loco | consist | setSpeed | speedLimit
  deriving Repr, DecidableEq
def Kind.all : List Kind := [.loco, .consist, .setSpeed, .speedLimit]
def Kind.name : Kind → String
  | .loco => "loco" | .consist => "consist" | .setSpeed => "setSpeed" | .speedLimit => "speedLimit"
def Kind.ofName (_ : String) : Option Kind := none
def shape : Kind → List Variant → Tree := fun _ _ => variantTree .Unknown
def stepOrder : Kind → List Phase := fun _ => []
def walkInitSaves : Kind → Nat := fun _ => 0
def timedInitSaves : Kind → Option Nat := fun _ => none
def newProg : Kind → List NewAct := fun _ => []
def simVecSetCalls : Nat := 0
end Generated.HistoryTree
"""


def write_if_changed(path, txt):
    os.makedirs(os.path.dirname(path), exist_ok=True)
    if os.path.exists(path) and open(path, encoding="utf-8").read() == txt:
        return False
    tmp = path + ".tmp"
    open(tmp, "w", encoding="utf-8").write(txt)
    os.replace(tmp, path)
    return True


def main():
    if len(sys.argv) != 3:
        print(__doc__)
        sys.exit(2)
    root, out = sys.argv[1], sys.argv[2]
    try:
        w = World(root)
        mutation_census(w)
        em = Emitter(w)
        body = em.emit("PENDING")
        digest = hashlib.sha1(repr(sorted(w.digest_parts)).encode()).hexdigest()
        body = body.replace("PENDING", digest)
        changed = write_if_changed(out, body)
        print("scan_history: ok, digest %s, %s %s" % (digest, "wrote" if changed else "unchanged", out))
    except ScanError as e:
        msg = "scan_history: SHAPE NOT UNDERSTOOD: %s" % e
        write_if_changed(out, STUB % lean_str(str(e)))
        print(msg, file=sys.stderr)
        sys.exit(1)


if __name__ == "__main__":
    main()
