#!/usr/bin/env python3
"""
scan_order_sites.py — inventory of every place in rust/altrios-core/src whose result could depend on
hash-map iteration order or on thread scheduling (property C18, DESIGN.md §7.18).

Python 3 stdlib only; a regex / bracket-matching reader with a small receiver-type resolver (struct
fields, fn parameters, `let` bindings, `self`, a handful of container methods).  It is NOT a Rust
front end.  Its rules are deliberately one-sided:

  * a site is REPORTED whenever an iteration method (`iter`, `values`, `keys`, `drain`, `difference`, …)
    or a `for … in` is applied to something that the resolver types as a std `HashMap`/`HashSet`,
    a nohash `IntMap`/`IntSet`, or an alias of those — or that it cannot type but that carries the
    name of a hash-typed field / binding (container `unresolved`);
  * every rayon call (`par_iter*`, `into_par_iter`, `par_bridge`, `par_chunks*`, `par_sort*`, `rayon::…`)
    and every hash-typed field of a `Serialize` struct is a site;
  * a site is REVIEWED only if (file, enclosing fn, whitespace-free statement text) is literally in the
    table `REVIEWED` below; anything else — a new site, or a reviewed one whose statement was edited —
    gets `Just.unreviewed`, which breaks `C18_sites_reviewed` in lean/Proofs/C18.lean;
  * a statement that accumulates (`fold`/`sum`/`product`/`reduce`/`+=` in a loop body …) over a
    non-integer element type is forced to `unreviewed` whatever the table says (float addition is not
    associative; the field model cannot see that);
  * anything the reader itself is unsure about (unbalanced brackets, an unknown hash-container family
    such as hashbrown / indexmap / ahash being imported) becomes an `unreviewed` pseudo-site: fail loudly.

Known blind spots (stated in cfg/C18.py): containers handed to foreign functions by reference,
receivers typed only through closure parameters / match arms / generics, macros that expand to
iterations, and other crates' internals (polars `groupby`/`unique` are listed separately, not judged).

usage:  scan_order_sites.py [--repo /repo] [--out /verif/lean/Generated/OrderSites.lean] [--dump]
"""
import json
import os
import re
import sys

SRC_REL = "rust/altrios-core/src"

STD_MAP, STD_SET, INT_MAP, INT_SET = "stdHashMap", "stdHashSet", "intMap", "intSet"
BASE_FAMILIES = {"HashMap": STD_MAP, "HashSet": STD_SET, "IntMap": INT_MAP, "IntSet": INT_SET}
UNKNOWN_FAMILIES = re.compile(
    r"\b(hashbrown|ahash|fxhash|rustc_hash|indexmap|dashmap|FxHashMap|FxHashSet|AHashMap|AHashSet|IndexMap|IndexSet|"
    r"DashMap|DashSet|hash_map|hash_set)\b")

ITER_METHODS = {
    "iter", "iter_mut", "into_iter", "values", "values_mut", "into_values", "keys", "into_keys", "drain",
    "retain", "difference", "symmetric_difference", "intersection", "union", "extract_if", "drain_filter",
}
# methods of a hash container that neither iterate nor hand out an inner container
SCALAR_METHODS = {
    "len", "is_empty", "contains", "contains_key", "insert", "capacity", "reserve", "clear", "shrink_to_fit",
    "is_subset", "is_superset", "is_disjoint", "hasher", "shrink_to", "try_reserve", "extend",
}
SAME_METHODS = {"clone", "to_owned", "borrow", "borrow_mut", "as_ref", "as_mut", "by_ref", "cloned", "copied",
                "as_deref", "as_deref_mut", "take"}
UNWRAP_METHODS = {"unwrap", "expect", "unwrap_or_default", "unwrap_or_else", "unwrap_or", "unwrap_unchecked"}
RESULTISH_METHODS = {"ok_or", "ok_or_else", "with_context", "context", "map_err", "ok"}
ENTRY_METHODS = {"or_default", "or_insert", "or_insert_with", "or_insert_with_key"}
GET_METHODS = {"get", "get_mut", "remove", "get_key_value", "remove_entry", "entry"}
INT_TYPES = {"u8", "u16", "u32", "u64", "u128", "usize", "i8", "i16", "i32", "i64", "i128", "isize",
             "NonZeroU16", "NonZeroU32", "NonZeroUsize", "EstIdx", "LinkIdx", "TrainIdx", "bool", "String", "&str", "str"}
FOLD_RE = re.compile(r"\.(fold|sum|product|reduce|try_fold|rfold|try_rfold|scan|fold_while)(::<[^>]*>)?\(")
ACC_ASSIGN_RE = re.compile(r"(\+=|-=|\*=|/=)")
RAYON_METHOD_RE = re.compile(
    r"\.(par_iter_mut|par_iter|into_par_iter|par_bridge|par_chunks\w*|par_sort\w*|par_extend|par_drain|par_windows|"
    r"par_split\w*|par_lines|par_chars|par_bytes)\s*(::<[^>]*>)?\s*\(")
RAYON_PATH_RE = re.compile(r"\brayon::(?!prelude\b)(\w+)")
POLARS_RE = re.compile(r"\.(groupby|group_by|groupby_stable|unique|unique_stable|n_unique|arg_unique)\s*\(")

# --------------------------------------------------------------------------------------------------
# REVIEWED: (file, fn, whitespace-free statement, container the receiver resolves to) -> (justification, note)
# Edit a Rust statement listed here and its entry no longer matches: the site turns `unreviewed`.
# --------------------------------------------------------------------------------------------------
REVIEWED = [
    # ---- rayon
    ("consist/locomotive/loco_sim.rs", "walk",
     'self.0.par_iter_mut().enumerate().try_for_each(|(i,loco_sim)|{#[cfg(feature="")]log::info!("");loco_sim.walk()'
     '.map_err(|err|err.context(format!("",i)))})?',
     "rayon", "parElementwise",
     "closure captures nothing mutable; receives (&mut element, its index); model Altrios/Par.lean"),
    # ---- std HashMap / HashSet
    ("train/train_config.rs", "cars_total",
     "self.n_cars_by_type.values().fold(0,|acc,n|*n+acc)",
     "stdHashMap", "natSumPerm", "u32 sum over map values"),
    ("train/train_config.rs", "check_rv_keys",
     "let n_cars_type_set=HashSet::<String>::from_iter(self.train_config.n_cars_by_type.keys().cloned())",
     "stdHashMap", "setCollectPerm", "keys collected into a set; only membership is used afterwards"),
    ("train/train_config.rs", "check_rv_keys",
     "let extra_keys_in_rv=rv_car_type_set.difference(&n_cars_type_set).collect::<Vec<&String>>()",
     "stdHashSet", "diffEmptyPerm", "only is_empty() decides; the vector is printed in the bail! message"),
    ("train/train_config.rs", "check_rv_keys",
     "let extra_keys_in_n_cars=n_cars_type_set.difference(&rv_car_type_set).collect::<Vec<&String>>()",
     "stdHashSet", "diffEmptyPerm", "only is_empty() decides; the vector is printed in the bail! message"),
    ("track/path_track/path_tpc.rs", "extract_speed_set",
     'let speed_set=match speed_set{Some(s)=>s,None=>{speed_sets.iter().find(|&sps|sps.0==&train_params.train_type)'
     '.with_context(||{anyhow!("",train_params.train_type,speed_sets.keys())})?.1}}',
     "stdHashMap", "findDistinctKeys",
     "find by key over map entries (keys distinct); speed_sets.keys() only feeds the error text"),
    ("track/link/speed/speed_set.rs", "validate",
     'validate_slice_real(&mut errors,&self.values().collect::<Vec<&SpeedSet>>(),"")',
     "stdHashMap", "verdictPerm", "verdict = no error collected; positions in the message text follow iteration order"),
    ("consist/locomotive/locomotive_model.rs", "from_hash",
     'ensure!(params.is_empty(),"",format_dbg!(),params.keys())',
     "stdHashMap", "errorTextOnly", "keys printed in the error message; the decision is params.is_empty()"),
    ("train/train_config.rs", "make_speed_limit_train_sim",
     'Ok(SpeedLimitTrainSim::new(self.train_id.clone(),location_map.get(self.origin_id.as_ref().unwrap())'
     '.with_context(||{anyhow!(format!("",format_dbg!(),self.origin_id.as_ref().unwrap(),location_map.keys()))})?,'
     'location_map.get(self.destination_id.as_ref().unwrap()).with_context(||{anyhow!(format!("",format_dbg!(),'
     'self.destination_id.as_ref().unwrap(),location_map.keys()))})?,self.loco_con.clone(),state,train_res,path_tpc,'
     'fric_brake,save_interval,simulation_days,scenario_year))',
     "stdHashMap", "errorTextOnly", "location_map.keys() is printed when the `get` by key failed; lookups are by key"),
    ("train/train_config.rs", "make_speed_limit_train_sim_and_parts",
     'let ts=SpeedLimitTrainSim::new(self.train_id.clone(),location_map.get(self.origin_id.as_ref().unwrap())'
     '.with_context(||{anyhow!(format!("",format_dbg!(),self.origin_id.as_ref().unwrap(),location_map.keys()))})?,'
     'location_map.get(self.destination_id.as_ref().unwrap()).with_context(||{anyhow!(format!("",format_dbg!(),'
     'self.destination_id.as_ref().unwrap(),location_map.keys()))})?,self.loco_con.clone(),state,train_res.clone(),'
     'path_tpc.clone(),fric_brake.clone(),save_interval,simulation_days,scenario_year)',
     "stdHashMap", "errorTextOnly", "as above"),
    # ---- serialized map fields (order of entries in the emitted text only; content is a map)
    ("track/link/link_impl.rs", "struct Link",
     "pub speed_sets:HashMap<TrainType,SpeedSet>",
     "stdHashMap", "serdeMapOrder", "YAML/JSON/bincode entry order follows the hash seed; deserialization is order-free"),
    ("train/train_config.rs", "struct TrainConfig",
     "pub n_cars_by_type:HashMap<String,u32>",
     "stdHashMap", "serdeMapOrder", "as above"),
    # ---- nohash IntMap / IntSet (identity hasher: no per-process seed)
    ("meet_pass/train_disp/mod.rs", "struct TrainDisp",
     "links_on_path:IntSet<LinkIdx>",
     "intSet", "seedlessHasher", "serialized in set order; the order is a function of the inserted LinkIdx values"),
    ("meet_pass/est_times/mod.rs", "add_new_join_paths",
     "for est_idx in est_idxs_push{est_join_paths_save.push(EstJoinPath::new(link_event_add.link_idx,*est_idx));}",
     "intSet", "seedlessHasher",
     "ORDER-SENSITIVE (join paths are pushed in set order and the first best speed match wins) but the order is a "
     "function of the inserted EstIdx values only: BuildNoHashHasher has no state"),
]


KNOWN_CONTAINER_METHODS = SCALAR_METHODS | SAME_METHODS | GET_METHODS | ITER_METHODS


class ScanProblem(Exception):
    pass


# --------------------------------------------------------------------------------------------------
# lexing
# --------------------------------------------------------------------------------------------------
def blank_noncode(text):
    """comments -> spaces; string/char literal CONTENTS -> removed markers (same length, newlines kept).
    returns (code, strings) where strings = [(start, end, content)] of string literals"""
    out = list(text)
    n = len(text)
    i = 0
    strings = []

    def fill(a, b):
        for k in range(a, b):
            if out[k] != "\n":
                out[k] = " "

    while i < n:
        c = text[i]
        if c == "/" and i + 1 < n and text[i + 1] == "/":
            j = text.find("\n", i)
            j = n if j < 0 else j
            fill(i, j)
            i = j
        elif c == "/" and i + 1 < n and text[i + 1] == "*":
            depth, j = 1, i + 2
            while j < n and depth:
                if text.startswith("/*", j):
                    depth += 1
                    j += 2
                elif text.startswith("*/", j):
                    depth -= 1
                    j += 2
                else:
                    j += 1
            fill(i, j)
            i = j
        elif c == "r" and re.match(r'r#*"', text[i:i + 12]) and (i == 0 or not (text[i - 1].isalnum() or text[i - 1] == "_")):
            m = re.match(r'r(#*)"', text[i:])
            closer = '"' + m.group(1)
            j = text.find(closer, i + len(m.group(0)))
            if j < 0:
                raise ScanProblem("unterminated raw string")
            strings.append((i, j + len(closer), text[i + len(m.group(0)):j]))
            fill(i + len(m.group(0)), j)
            i = j + len(closer)
        elif c == '"':
            j = i + 1
            while j < n and text[j] != '"':
                j += 2 if text[j] == "\\" else 1
            if j >= n:
                raise ScanProblem("unterminated string")
            strings.append((i, j + 1, text[i + 1:j]))
            fill(i + 1, j)
            i = j + 1
        elif c == "'":
            # char literal or lifetime
            m = re.match(r"'(\\.[^']*|[^'\\])'", text[i:])
            if m:
                fill(i + 1, i + len(m.group(0)) - 1)
                i += len(m.group(0))
            else:
                i += 1
        else:
            i += 1
    return "".join(out), strings


OPEN = {"(": ")", "[": "]", "{": "}"}
CLOSE = {v: k for k, v in OPEN.items()}


def match_close(code, i):
    """index of the bracket closing the opener at i"""
    stack = []
    n = len(code)
    k = i
    while k < n:
        c = code[k]
        if c in OPEN:
            stack.append(c)
        elif c in CLOSE:
            if not stack or stack[-1] != CLOSE[c]:
                raise ScanProblem(f"unbalanced bracket at offset {k}")
            stack.pop()
            if not stack:
                return k
        k += 1
    raise ScanProblem(f"unclosed bracket at offset {i}")


def match_open(code, i):
    """index of the bracket opening the closer at i"""
    stack = []
    k = i
    while k >= 0:
        c = code[k]
        if c in CLOSE:
            stack.append(c)
        elif c in OPEN:
            if not stack or stack[-1] != OPEN[c]:
                raise ScanProblem(f"unbalanced bracket at offset {k}")
            stack.pop()
            if not stack:
                return k
        k -= 1
    raise ScanProblem(f"unopened bracket at offset {i}")


def match_angle(code, i):
    """index of '>' closing '<' at i (generic argument list); '->' and '=>' are skipped"""
    depth = 0
    k = i
    n = len(code)
    while k < n:
        c = code[k]
        if c == "<":
            depth += 1
        elif c == ">" and code[k - 1] not in "-=":
            depth -= 1
            if depth == 0:
                return k
        elif c in "({[":
            k = match_close(code, k)
        elif c in ";{":
            break
        k += 1
    raise ScanProblem(f"unclosed '<' at offset {i}")


def split_top(s, sep=","):
    """split at top-level separators (outside () [] {} <>)"""
    parts, depth, cur = [], 0, []
    i = 0
    while i < len(s):
        c = s[i]
        if c in "([{":
            depth += 1
        elif c in ")]}":
            depth -= 1
        elif c == "<":
            depth += 1
        elif c == ">" and i > 0 and s[i - 1] not in "-=":
            depth -= 1
        if c == sep and depth == 0:
            parts.append("".join(cur))
            cur = []
        else:
            cur.append(c)
        i += 1
    if "".join(cur).strip():
        parts.append("".join(cur))
    return parts


def strip_attrs(s):
    """remove #[...] attributes from a field / parameter text"""
    out = []
    i = 0
    while i < len(s):
        if s[i] == "#" and re.match(r"#!?\s*\[", s[i:]):
            j = s.index("[", i)
            i = match_close(s, j) + 1
        else:
            out.append(s[i])
            i += 1
    return "".join(out)


def squash(s):
    """whitespace-free normal form (a single space is kept between two identifier characters)"""
    s = re.sub(r"\s+", " ", s.strip())
    s = re.sub(r"(?<![A-Za-z0-9_]) | (?![A-Za-z0-9_])", "", s)
    s = re.sub(r",(?=[)\]}])", "", s)      # rustfmt's trailing commas
    return s


# --------------------------------------------------------------------------------------------------
# types
# --------------------------------------------------------------------------------------------------
def strip_type(t):
    """drop references, lifetimes, mut/dyn/impl, Box/Rc/Arc wrappers"""
    if t is None:
        return None
    t = t.strip()
    while True:
        t0 = t
        t = re.sub(r"^&\s*('\w+\s*)?(mut\s+)?", "", t).strip()
        t = re.sub(r"^(mut|dyn|impl)\s+", "", t).strip()
        m = re.match(r"^(?:\w+::)*(Box|Rc|Arc|RefCell|Cell|Cow)\s*<(.*)>$", t, re.S)
        if m:
            inner = split_top(m.group(2))
            t = inner[-1].strip() if m.group(1) == "Cow" else inner[0].strip()
        if t == t0:
            return t


def type_head(t):
    t = strip_type(t)
    if not t:
        return None
    m = re.match(r"^((?:\w+\s*::\s*)*)(\w+)", t)
    return m.group(2) if m else None


def type_args(t):
    t = strip_type(t)
    if not t or "<" not in t:
        return []
    i = t.index("<")
    if not t.rstrip().endswith(">"):
        return []
    return [a.strip() for a in split_top(t[i + 1:t.rstrip().rindex(">")])]


class Crate:
    def __init__(self):
        self.files = []          # File objects
        self.aliases = {}        # alias name -> target type text
        self.structs = {}        # name -> [StructDef]
        self.fns = {}            # name -> [FnDef]
        self.hash_field_names = {}   # field / binding name -> family (for the unresolved fallback)
        self.problems = []

    def family(self, t, depth=0):
        """container family of a type text, following aliases"""
        h = type_head(t)
        if h is None or depth > 8:
            return None
        if h in BASE_FAMILIES:
            return BASE_FAMILIES[h]
        if h in self.aliases:
            return self.family(self.aliases[h], depth + 1)
        return None

    def expand(self, t, depth=0):
        """type text with a top-level alias replaced by its target"""
        h = type_head(t)
        if h in self.aliases and depth < 8:
            return self.expand(self.aliases[h], depth + 1)
        return strip_type(t)

    def kv(self, t):
        """(key type, value type) of a hash container type"""
        a = type_args(self.expand(t))
        fam = self.family(t)
        if fam in (STD_MAP, INT_MAP):
            return (a[0] if a else "?", a[1] if len(a) > 1 else "?")
        return (a[0] if a else "?", None)

    def mentions_hash(self, t):
        for w in re.findall(r"\w+", t or ""):
            if w in BASE_FAMILIES or (w in self.aliases and self.family(w)):
                return w
        return None


class File:
    def __init__(self, rel, text):
        self.rel = rel
        self.raw = text
        self.code, self.strings = blank_noncode(text)
        self.line_starts = [0] + [m.end() for m in re.finditer("\n", text)]
        self.impls = []   # (start, end, self_type)
        self.fndefs = []
        # `use path::X as Y;`  ->  renames[Y] = (path, X)
        self.renames = {}
        for m in re.finditer(r"([\w:]+)::(\w+)\s+as\s+(\w+)", self.code):
            self.renames[m.group(3)] = (m.group(1), m.group(2))

    def line(self, pos):
        import bisect
        return bisect.bisect_right(self.line_starts, pos)


class StructDef:
    def __init__(self, name, fields, derives, file, pos):
        self.name, self.fields, self.derives, self.file, self.pos = name, fields, derives, file, pos


class FnDef:
    def __init__(self, name, params, ret, body, file, pos, self_ty):
        self.name, self.params, self.ret, self.body, self.file, self.pos, self.self_ty = \
            name, params, ret, body, file, pos, self_ty


def remove_cfg_test(f):
    """blank every item under #[cfg(test)] (unit tests are not part of the library's behaviour) and under
    #[cfg(feature = "verif-hooks")] (add-only observation hooks of /verif, compiled out by default)"""
    code = f.code
    for m in list(re.finditer(r"#\s*\[\s*cfg\s*\(\s*(?:test|feature\s*=\s*\"[^\"]*\")\s*\)\s*\]", code)):
        if "feature" in m.group(0):
            lit = [c for (a, b, c) in f.strings if m.start() < a < m.end()]
            if lit != ["verif-hooks"]:
                continue
        k = m.end()
        # skip further attributes
        while True:
            mm = re.match(r"\s*#\s*\[", code[k:])
            if not mm:
                break
            k = match_close(code, k + mm.end() - 1) + 1
        j = k
        while j < len(code) and code[j] not in "{;":
            if code[j] in "([":
                j = match_close(code, j)
            j += 1
        if j >= len(code):
            continue
        end = match_close(code, j) + 1 if code[j] == "{" else j + 1
        code = code[:m.start()] + re.sub(r"[^\n]", " ", code[m.start():end]) + code[end:]
    f.code = code


def attrs_before(code, pos):
    """text of the attribute block immediately preceding the item keyword at pos"""
    k = pos
    out = []
    while True:
        j = k - 1
        while j >= 0 and code[j].isspace():
            j -= 1
        # visibility
        m = re.search(r"(pub(\s*\([^)]*\))?)\s*$", code[:j + 1])
        if m and m.end() == j + 1:
            k = m.start()
            continue
        if j >= 0 and code[j] == "]":
            o = match_open(code, j)
            h = o - 1
            while h >= 0 and code[h].isspace():
                h -= 1
            if h >= 0 and code[h] == "!":
                h -= 1
            if h >= 0 and code[h] == "#":
                out.append(code[h:j + 1])
                k = h
                continue
        break
    return " ".join(reversed(out))


def parse_items(crate, f):
    code = f.code
    # aliases
    for m in re.finditer(r"\btype\s+(\w+)\s*(<[^=;]*>)?\s*=\s*([^;]+);", code):
        crate.aliases[m.group(1)] = m.group(3).strip()
    # structs
    for m in re.finditer(r"\bstruct\s+(\w+)\s*", code):
        k = m.end()
        if k < len(code) and code[k] == "<":
            k = match_angle(code, k) + 1
        mm = re.match(r"\s*(where[^{;(]*)?", code[k:])
        k += mm.end()
        if k >= len(code):
            continue
        fields = {}
        if code[k] == "{":
            e = match_close(code, k)
            for piece in split_top(code[k + 1:e]):
                p = strip_attrs(piece).strip()
                p = re.sub(r"^pub(\s*\([^)]*\))?\s*", "", p)
                fm = re.match(r"^(r#)?(\w+)\s*:\s*(.+)$", p, re.S)
                if fm:
                    attrs = " ".join(re.findall(r"#\s*\[[^\]]*\]", piece))
                    fpm = re.search(r"\b" + re.escape(fm.group(2)) + r"\s*:", code[k + 1:e])
                    fields[fm.group(2)] = (squash(fm.group(3)), piece, attrs, k + 1 + (fpm.start() if fpm else 0))
        elif code[k] == "(":
            e = match_close(code, k)
            for idx, piece in enumerate(split_top(code[k + 1:e])):
                p = strip_attrs(piece).strip()
                p = re.sub(r"^pub(\s*\([^)]*\))?\s*", "", p)
                if p:
                    fields[str(idx)] = (squash(p), piece, "", k + 1)
        else:
            continue
        derives = attrs_before(code, m.start())
        crate.structs.setdefault(m.group(1), []).append(StructDef(m.group(1), fields, derives, f, m.start()))
    # impls
    for m in re.finditer(r"\bimpl\b", code):
        k = m.end()
        mm = re.match(r"\s*<", code[k:])
        if mm:
            k = match_angle(code, k + mm.end() - 1) + 1
        j = k
        while j < len(code) and code[j] not in "{;":
            if code[j] in "([":
                j = match_close(code, j)
            j += 1
        if j >= len(code) or code[j] != "{":
            continue
        header = code[k:j]
        header = re.split(r"\bwhere\b", header)[0]
        parts = re.split(r"\bfor\b", header)
        self_ty = squash(parts[-1])
        try:
            e = match_close(code, j)
        except ScanProblem:
            continue
        f.impls.append((j, e, self_ty))
    # fns
    for m in re.finditer(r"\bfn\s+(\w+)\s*", code):
        k = m.end()
        if k < len(code) and code[k] == "<":
            k = match_angle(code, k) + 1
        mm = re.match(r"\s*\(", code[k:])
        if not mm:
            continue
        po = k + mm.end() - 1
        pc = match_close(code, po)
        j = pc + 1
        while j < len(code) and code[j] not in "{;":
            if code[j] in "([":
                j = match_close(code, j)
            j += 1
        if j >= len(code):
            continue
        ret_txt = code[pc + 1:j]
        ret_txt = re.split(r"\bwhere\b", ret_txt)[0]
        rm = re.match(r"\s*->\s*(.+)$", ret_txt, re.S)
        ret = squash(rm.group(1)) if rm else None
        body = None
        if code[j] == "{":
            body = (j, match_close(code, j))
        self_ty = None
        for (a, b, t) in f.impls:
            if a < m.start() < b:
                if self_ty is None or a > self_ty[0]:
                    self_ty = (a, t)
        params = []
        for piece in split_top(code[po + 1:pc]):
            p = strip_attrs(piece).strip()
            if re.match(r"^&?\s*('\w+\s+)?(mut\s+)?self$", p):
                params.append(("self", self_ty[1] if self_ty else None))
                continue
            pm = re.match(r"^(mut\s+)?(\w+)\s*:\s*(.+)$", p, re.S)
            if pm:
                params.append((pm.group(2), squash(pm.group(3))))
        fd = FnDef(m.group(1), params, ret, body, f, m.start(), self_ty[1] if self_ty else None)
        f.fndefs.append(fd)
        crate.fns.setdefault(m.group(1), []).append(fd)


# --------------------------------------------------------------------------------------------------
# expression typing (postfix chains only)
# --------------------------------------------------------------------------------------------------
ITER_MARK = "__Iter"


def skip_ws_back(code, i):
    while i >= 0 and code[i].isspace():
        i -= 1
    return i


def receiver_start(code, dot):
    """start offset of the postfix expression that ends just before the '.' at `dot`"""
    i = skip_ws_back(code, dot - 1)
    while True:
        if i < 0:
            return 0
        c = code[i]
        if c in ")]":
            i = match_open(code, i) - 1
            i = skip_ws_back(code, i)
            # generic turbofish before a call:  name::<T>(..)
            if i >= 0 and code[i] == ">":
                depth = 0
                while i >= 0:
                    if code[i] == ">":
                        depth += 1
                    elif code[i] == "<":
                        depth -= 1
                        if depth == 0:
                            break
                    i -= 1
                i -= 1
                if code[max(i - 1, 0):i + 1] == "::":
                    i -= 2
                i = skip_ws_back(code, i)
            # a call / index needs a callee in front (identifier), or it is a parenthesised root
            if i >= 0 and (code[i].isalnum() or code[i] == "_"):
                continue
            if i >= 0 and code[i] in ")]?":
                continue
            return i + 1 + (len(code[i + 1:]) - len(code[i + 1:].lstrip()))
        if c == "?":
            i = skip_ws_back(code, i - 1)
            continue
        if c.isalnum() or c == "_":
            while i >= 0 and (code[i].isalnum() or code[i] == "_"):
                i -= 1
            j = skip_ws_back(code, i)
            if j >= 0 and code[j] == "." and not (j > 0 and code[j - 1] == "."):
                i = skip_ws_back(code, j - 1)
                continue
            if j >= 1 and code[j - 1:j + 1] == "::":
                i = skip_ws_back(code, j - 2)
                if i >= 0 and code[i] == ">":
                    depth = 0
                    while i >= 0:
                        if code[i] == ">":
                            depth += 1
                        elif code[i] == "<":
                            depth -= 1
                            if depth == 0:
                                break
                        i -= 1
                    i -= 1
                    if code[max(i - 1, 0):i + 1] == "::":
                        i = skip_ws_back(code, i - 2)
                continue
            return i + 1 + (len(code[i + 1:]) - len(code[i + 1:].lstrip()))
        return i + 1 + (len(code[i + 1:]) - len(code[i + 1:].lstrip()))


def parse_chain(expr):
    """expr -> (root_text, [segments]); segments: ('field', name) ('method', name, args) ('try',) ('index',) ('call', args)"""
    s = expr.strip()
    # prefix operators
    while True:
        m = re.match(r"^(&\s*mut\b|&|\*|\bmut\b)\s*", s)
        if m and m.end() > 0:
            s = s[m.end():]
        else:
            break
    i = 0
    n = len(s)
    if n == 0:
        return None
    if s[0] == "(":
        e = match_close(s, 0)
        root = s[:e + 1]
        i = e + 1
    else:
        m = re.match(r"^[A-Za-z_]\w*(\s*::\s*(<[^;{}]*?>|[A-Za-z_]\w*))*", s)
        if not m:
            return None
        root = m.group(0)
        i = m.end()
    segs = []
    while i < n:
        while i < n and s[i].isspace():
            i += 1
        if i >= n:
            break
        c = s[i]
        if c == "?":
            segs.append(("try",))
            i += 1
        elif c == "(":
            e = match_close(s, i)
            segs.append(("call", s[i + 1:e]))
            i = e + 1
        elif c == "[":
            e = match_close(s, i)
            segs.append(("index",))
            i = e + 1
        elif c == ".":
            m = re.match(r"^\.\s*(\w+)\s*(::\s*<[^;{}]*?>)?\s*", s[i:])
            if not m:
                return None
            name = m.group(1)
            j = i + m.end()
            turbofish = m.group(2) or ""
            # a nested turbofish (`collect::<HashMap<_, _>>()`): the lazy regex stops at the first `>`; match the angle brackets
            m2 = re.match(r"^\.\s*\w+\s*::\s*<", s[i:])
            if m2:
                depth, q = 1, i + m2.end()
                while q < n and depth > 0:
                    if s[q] == "<":
                        depth += 1
                    elif s[q] == ">" and s[q - 1] != "-":
                        depth -= 1
                    q += 1
                if depth == 0:
                    turbofish = s[i + m2.end() - 1:q]
                    j = q
                    while j < n and s[j].isspace():
                        j += 1
            if j < n and s[j] == "(":
                e = match_close(s, j)
                segs.append(("method", name, s[j + 1:e], i, turbofish))
                i = e + 1
            else:
                segs.append(("field", name))
                i = j
        else:
            return None   # binary operator etc.: not a plain postfix chain
    return root, segs


class Env:
    def __init__(self):
        self.binds = []   # (pos, name, type or None)

    def bind(self, pos, name, ty):
        self.binds.append((pos, name, ty))

    def lookup(self, name, pos):
        best = None
        for (p, n, t) in self.binds:
            if n == name and p <= pos and (best is None or p >= best[0]):
                best = (p, t)
        return best[1] if best else None

    def known(self, name, pos):
        return any(n == name and p <= pos for (p, n, t) in self.binds)


class Typer:
    def __init__(self, crate, f, fd, env):
        self.crate, self.f, self.fd, self.env = crate, f, fd, env

    def struct_field(self, ty, name):
        h = type_head(self.crate.expand(ty))
        if h == "Self" and self.fd.self_ty:
            h = type_head(self.fd.self_ty)
        if h in self.f.renames:
            path, orig = self.f.renames[h]
            mod = [p for p in path.split("::") if p not in ("super", "crate", "self")]
            defs = [d for d in self.crate.structs.get(orig, [])
                    if not mod or mod[-1] in d.file.rel.replace(".rs", "").split("/")]
        else:
            defs = self.crate.structs.get(h or "", [])
        if len(defs) > 1:
            same = [d for d in defs if d.file is self.f]
            defs = same if len(same) == 1 else defs
        if len(defs) != 1:
            if name.isdigit():
                st = strip_type(self.crate.expand(ty)) or ""
                if st.startswith("("):
                    parts = split_top(st[1:-1])
                    if int(name) < len(parts):
                        return parts[int(name)].strip()
            return None
        fld = defs[0].fields.get(name)
        return fld[0] if fld else None

    def fn_ret(self, name, recv_ty=None):
        cands = self.crate.fns.get(name, [])
        if recv_ty is not None:
            h = type_head(self.crate.expand(recv_ty))
            cands = [c for c in cands if c.self_ty and type_head(c.self_ty) == h]
        else:
            cands = [c for c in cands if c.self_ty is None] or cands
        rets = {c.ret for c in cands}
        if len(rets) == 1:
            r = rets.pop()
            if r and recv_ty is not None:
                r = re.sub(r"\bSelf\b", strip_type(recv_ty) or "Self", r)
            return r
        return None

    @staticmethod
    def unwrap(t):
        """Option<T> / Result<T,E> / anyhow::Result<T> -> T"""
        h = type_head(t)
        if h in ("Option", "Result"):
            a = type_args(t)
            return a[0] if a else None
        return t

    def type_of(self, expr, pos):
        """type text of a postfix chain (as far as the reader can tell), or None"""
        expr = expr.strip()
        if not expr:
            return None
        # block / if-else expressions: type of the tail expression
        if expr.startswith("if ") or expr.startswith("if("):
            k = expr.find("{")
            if k < 0:
                return None
            try:
                e = match_close(expr, k)
            except ScanProblem:
                return None
            t = self.type_of("{" + expr[k + 1:e] + "}", pos)
            if t:
                return t
            rest = expr[e + 1:].strip()
            if rest.startswith("else"):
                return self.type_of(rest[4:].strip(), pos)
            return None
        if expr.startswith("{") and expr.endswith("}"):
            inner = expr[1:-1]
            parts = split_top(inner, ";")
            tail = parts[-1] if parts and not inner.rstrip().endswith(";") else ""
            return self.type_of(tail, pos) if tail.strip() else None
        try:
            pc = parse_chain(expr)
        except ScanProblem:
            return None
        if pc is None:
            return None
        root, segs = pc
        cur = None
        # root
        if root.startswith("("):
            cur = self.type_of(root[1:-1], pos)
        elif "::" in root:
            parts = [p.strip() for p in re.split(r"::", root)]
            first = parts[0]
            tyname = None
            # Type::ctor(..) / Type::<..>::ctor(..)
            for p in parts[:-1]:
                if re.match(r"^[A-Z]\w*$", p):
                    tyname = p
            if tyname and segs and segs[0][0] == "call":
                if self.crate.family(tyname):
                    generic = next((p for p in parts if p.startswith("<")), "")
                    cur = tyname + generic
                elif tyname == "Self" and self.fd.self_ty and parts[-1] in ("new", "default"):
                    cur = self.fd.self_ty
                elif tyname in self.crate.structs and parts[-1] in ("new", "default", "valid"):
                    cur = tyname
                else:
                    r = self.fn_ret(parts[-1], tyname if tyname != "Self" else self.fd.self_ty)
                    cur = r
                segs = segs[1:]
            else:
                cur = None
        else:
            if segs and segs[0][0] == "call":
                if root in ("Some", "Ok"):
                    inner = self.type_of(segs[0][1], pos)
                    cur = f"Option<{inner}>" if inner else None
                else:
                    cur = self.fn_ret(root)
                segs = segs[1:]
            else:
                cur = self.env.lookup(root, pos)
        # `….collect::<HashMap<..>>()` (or HashSet / IntMap / IntSet): whatever was collected — typed or not — the result
        # is a hash container; typing restarts at the last such segment
        for q in range(len(segs) - 1, -1, -1):
            seg = segs[q]
            if seg[0] == "method" and seg[1] == "collect" and len(seg) > 4 and seg[4]:
                inner = re.sub(r"^(?:::)?\s*<(.*)>$", r"\1", seg[4].strip(), flags=re.S).strip()
                inner = re.sub(r"^(?:std\s*::\s*collections\s*::\s*)", "", inner)
                if self.crate.family(inner):
                    cur = squash(inner)
                    segs = segs[q + 1:]
                    break
        for seg in segs:
            if cur is None:
                return None
            kind = seg[0]
            fam = self.crate.family(cur)
            if kind == "try":
                cur = self.unwrap(cur)
            elif kind == "index":
                h = type_head(cur)
                st = strip_type(cur) or ""
                if h == "Vec":
                    a = type_args(cur)
                    cur = a[0] if a else None
                elif st.startswith("["):
                    cur = st[1:-1].split(";")[0].strip()
                elif fam in (STD_MAP, INT_MAP):
                    cur = self.crate.kv(cur)[1]
                else:
                    cur = None
            elif kind == "field":
                cur = self.struct_field(cur, seg[1])
            elif kind == "call":
                cur = None
            elif kind == "method":
                name = seg[1]
                if fam:
                    k, v = self.crate.kv(cur)
                    if name in ITER_METHODS:
                        cur = ITER_MARK
                    elif name in ("get", "get_mut", "remove", "get_key_value", "remove_entry"):
                        cur = f"Option<{v if v is not None else k}>"
                    elif name == "entry":
                        cur = f"__Entry<{v}>"
                    elif name in SAME_METHODS:
                        pass
                    elif name in SCALAR_METHODS:
                        cur = "__scalar"
                    else:
                        raise ScanProblem(f"method `{name}` on a hash container is not classified")
                elif type_head(cur) == "__Entry":
                    cur = type_args(cur)[0] if name in ENTRY_METHODS else None
                elif type_head(cur) in ("Option", "Result"):
                    if name in UNWRAP_METHODS:
                        cur = self.unwrap(cur)
                    elif name in SAME_METHODS or name in RESULTISH_METHODS:
                        pass
                    else:
                        cur = None
                elif name in SAME_METHODS:
                    pass
                elif cur in (ITER_MARK, "__scalar"):
                    return None
                else:
                    cur = self.fn_ret(name, cur)
        return cur


# --------------------------------------------------------------------------------------------------
# statements
# --------------------------------------------------------------------------------------------------
CONTROL_KW = ("if", "else", "for", "while", "loop", "unsafe", "fn", "impl", "mod", "trait", "async", "const")


def block_header(code, o, lo):
    """text between the previous `;` / `{` / `}` / unclosed `(` `[` `,` and the `{` at o"""
    k = o - 1
    while k > lo:
        c = code[k]
        if c in ")]":
            k = match_open(code, k) - 1
            continue
        if c in ";{}([,":
            break
        k -= 1
    return code[k + 1:o]


def is_stmt_block(code, o, lo):
    """is the `{` at o the brace of a block of statements that stand on their own (fn / if / else / for /
    while / loop / plain block), as opposed to a closure body, a match body, a match arm or a struct
    literal (which belong to the statement around them)?"""
    j = skip_ws_back(code, o - 1)
    if j < 0:
        return True
    if code[j] == "|" or code[max(0, j - 1):j + 1] == "=>":
        return False
    hdr = block_header(code, o, lo).strip()
    hdr = re.sub(r"^'\w+\s*:\s*", "", hdr)
    first = re.match(r"^\w+", hdr)
    if first and first.group(0) in CONTROL_KW:
        return True
    if re.search(r"\bmatch\b", hdr):
        return False
    if re.search(r"(?:^|[^\w])(?:[A-Z]\w*|Self)(?:\s*::\s*<[^{}]*>)?$", hdr) and not re.search(r"\bfn\b", hdr):
        return False        # struct literal
    return True


def enclosing_statement(code, body, pos):
    """the statement containing pos: innermost enclosing block of statements, split at `;` and after
    the closing brace of a nested block of statements"""
    a, b = body
    stack = []
    for k in range(a, pos):
        c = code[k]
        if c in "([{":
            stack.append(k)
        elif c in ")]}":
            if stack:
                stack.pop()
    blk = a
    for o in reversed(stack):
        if code[o] == "{" and is_stmt_block(code, o, a):
            blk = o
            break
    blk_end = match_close(code, blk)
    start = blk + 1
    k = blk + 1
    while k < blk_end:
        c = code[k]
        if c in "([":
            k = match_close(code, k) + 1
            continue
        if c == "{":
            e = match_close(code, k)
            if k <= pos <= e:
                # pos is inside this nested (non-statement) block: it belongs to the current statement
                k = e + 1
                continue
            stm = is_stmt_block(code, k, blk)
            k = e + 1
            if stm:
                nxt = re.match(r"\s*(else\b|\.|\?|\)|,|;|as\b|[-+*/%&|^=<>!])", code[k:blk_end + 1])
                if not nxt:
                    if k > pos:
                        return start, k
                    start = k
            continue
        if c == ";":
            if k >= pos:
                return start, k
            start = k + 1
        k += 1
    return start, blk_end


# --------------------------------------------------------------------------------------------------
# scanning one function
# --------------------------------------------------------------------------------------------------
LET_RE = re.compile(r"\blet\s+(mut\s+)?(\w+)\s*(:\s*([^=;]+?))?\s*(=(?!=)|;)")
LET_TUPLE_RE = re.compile(r"\blet\s+\(([^)]*)\)\s*(:\s*([^=;]+?))?\s*=(?!=)")
IFLET_RE = re.compile(r"\b(?:if|while)\s+let\s+(Some|Ok)\s*\(\s*(?:mut\s+|ref\s+|&\s*)?(\w+)\s*\)\s*=(?!=)")
ASSIGN_RE = re.compile(r"(?:^|[;{}])\s*(\w+)\s*=(?!=)")


def rhs_until(code, k, body_end, stop_chars):
    """text from k up to the first char of stop_chars at bracket depth 0"""
    j = k
    while j < body_end:
        c = code[j]
        if c in "([{":
            if c == "{" and "{" in stop_chars:
                break
            j = match_close(code, j)
        elif c in stop_chars:
            break
        elif c in ")]}":
            break
        j += 1
    return code[k:j]


def build_env(crate, f, fd):
    env = Env()
    a, b = fd.body
    for (name, ty) in fd.params:
        env.bind(a, name, ty)
    code = f.code
    typer = Typer(crate, f, fd, env)
    events = []
    for m in LET_RE.finditer(code, a, b):
        events.append((m.start(), "let", m))
    for m in LET_TUPLE_RE.finditer(code, a, b):
        events.append((m.start(), "lett", m))
    for m in IFLET_RE.finditer(code, a, b):
        events.append((m.start(), "iflet", m))
    for m in ASSIGN_RE.finditer(code, a, b):
        events.append((m.start(1), "assign", m))
    events.sort(key=lambda e: e[0])
    for pos, kind, m in events:
        try:
            if kind == "let":
                name = m.group(2)
                if m.group(4):
                    env.bind(m.end(), name, squash(m.group(4)))
                elif m.group(5) == ";":
                    env.bind(m.end(), name, None)
                else:
                    rhs = rhs_until(code, m.end(), b, ";")
                    env.bind(m.end() + len(rhs), name, typer.type_of(rhs, m.end()))
            elif kind == "lett":
                names = [re.sub(r"^(mut|ref)\s+", "", x.strip()) for x in m.group(1).split(",")]
                rhs = rhs_until(code, m.end(), b, ";")
                t = squash(m.group(3)) if m.group(3) else typer.type_of(rhs, m.end())
                t = strip_type(crate.expand(t)) if t else None
                comps = split_top(t[1:-1]) if t and t.startswith("(") else []
                for i, nme in enumerate(names):
                    if re.match(r"^\w+$", nme):
                        env.bind(m.end() + len(rhs), nme, comps[i].strip() if i < len(comps) else None)
            elif kind == "iflet":
                rhs = rhs_until(code, m.end(), b, "{")
                t = typer.type_of(rhs, m.end())
                env.bind(m.end() + len(rhs), m.group(2), Typer.unwrap(t) if t else None)
            elif kind == "assign":
                name = m.group(1)
                if env.known(name, pos) and env.lookup(name, pos) is None:
                    rhs = rhs_until(code, m.end(), b, ";")
                    t = typer.type_of(rhs, m.end())
                    if t:
                        env.bind(m.end() + len(rhs), name, t)
        except ScanProblem:
            continue
    return env


def elem_is_int(elem):
    if elem is None:
        return False
    words = re.findall(r"[A-Za-z_]\w*", elem)
    return bool(words) and all(w in INT_TYPES for w in words)


def scan_fn(crate, f, fd, out):
    code = f.code
    a, b = fd.body
    # skip nested fn bodies: they are scanned on their own
    nested = [x.body for x in f.fndefs if x is not fd and x.body and a < x.body[0] and x.body[1] < b]

    def in_nested(p):
        return any(x[0] <= p <= x[1] for x in nested)

    env = build_env(crate, f, fd)
    typer = Typer(crate, f, fd, env)
    found = []   # (pos, family, elem, how)
    # (1) iteration methods
    for m in re.finditer(r"\.\s*(\w+)\s*(::\s*<[^;{}]*?>)?\s*\(", code[a:b]):
        name = m.group(1)
        dot = a + m.start()
        if in_nested(dot):
            continue
        try:
            rs = receiver_start(code, dot)
        except ScanProblem as e:
            crate.problems.append((f.rel, f.line(dot), fd.name, str(e)))
            continue
        recv = code[rs:dot]
        t = None
        try:
            t = typer.type_of(recv, dot)
        except ScanProblem as e:
            crate.problems.append((f.rel, f.line(dot), fd.name, str(e)))
        if name not in ITER_METHODS:
            # every method applied to a hash container must be one the reader knows the meaning of
            if t and crate.family(t) and name not in KNOWN_CONTAINER_METHODS:
                crate.problems.append((f.rel, f.line(dot), fd.name,
                                       f"method `{name}` on a hash container is not classified"))
            continue
        fam = crate.family(t) if t else None
        if fam:
            k, v = crate.kv(t)
            elem = {"values": v, "values_mut": v, "into_values": v, "keys": k, "into_keys": k}.get(
                name, k if v is None else f"({k},{v})")
            found.append((dot, fam, elem, name))
        elif t is None:
            # could not type the receiver: does it LOOK like a hash container?
            words = re.findall(r"[A-Za-z_]\w*", recv)
            last = words[-1] if words else ""
            pc = None
            try:
                pc = parse_chain(recv)
            except ScanProblem:
                pass
            # the receiver is the plain name / field path itself (no call in the chain after the name)
            simple_tail = pc is not None and (not pc[1] or pc[1][-1][0] in ("field", "try")
                                              or (pc[1][-1][0] == "method" and pc[1][-1][1] in SAME_METHODS | UNWRAP_METHODS))
            cand = [w for w in words if w in crate.hash_field_names]
            if cand and simple_tail and (last in crate.hash_field_names or
                                        (pc[1] and pc[1][-1][0] == "method" and cand)):
                found.append((dot, "unresolved", crate.hash_field_names[cand[-1]][1], name))
    # (2) for loops over the container itself
    for m in re.finditer(r"\bfor\s+(.+?)\s+in\s+", code[a:b], re.S):
        p0 = a + m.start()
        if in_nested(p0):
            continue
        k = a + m.end()
        expr = rhs_until(code, k, b, "{")
        t = None
        try:
            t = typer.type_of(expr, k)
        except ScanProblem as e:
            crate.problems.append((f.rel, f.line(k), fd.name, str(e)))
        fam = crate.family(t) if t else None
        if fam:
            kk, v = crate.kv(t)
            found.append((p0, fam, kk if v is None else f"({kk},{v})", "for"))
        elif t is None:
            words = re.findall(r"[A-Za-z_]\w*", expr)
            if words and words[-1] in crate.hash_field_names and re.match(r"^\s*(&\s*(mut\s+)?)?[\w.\s]+$", expr):
                found.append((p0, "unresolved", crate.hash_field_names[words[-1]][1], "for"))
    # (3) containers printed whole: macro arguments and inline `{name:?}` captures
    for m in re.finditer(r"\b([a-z_][\w:]*)!\s*\(", code[a:b]):
        mo = a + m.end() - 1
        if in_nested(mo):
            continue
        try:
            mc = match_close(code, mo)
        except ScanProblem:
            continue
        for arg in split_top(code[mo + 1:mc]):
            s = arg.strip()
            if not s or s.startswith('"'):
                continue
            try:
                t = typer.type_of(s, mo)
            except ScanProblem:
                t = None
            fam = crate.family(t) if t else None
            if fam:
                found.append((mo + 1 + code[mo + 1:mc].find(arg), fam, "(whole container)", "format"))
        for (sa, sb, content) in f.strings:
            if mo < sa < mc:
                for im in re.finditer(r"\{(\w+)(?::[^}]*)?\}", content):
                    nm = im.group(1)
                    t = env.lookup(nm, sa)
                    fam = crate.family(t) if t else None
                    if fam:
                        found.append((sa, fam, "(whole container)", "format-inline"))
    # emit
    seen = set()
    for (pos, fam, elem, how) in sorted(found):
        if how == "for":
            # the whole loop: from `for` to the brace closing its body
            k = pos
            while code[k] != "{":
                if code[k] in "([":
                    k = match_close(code, k)
                k += 1
            s, e = pos, match_close(code, k) + 1
        else:
            s, e = enclosing_statement(code, fd.body, pos)
        stmt = squash(code[s:e])
        key = (s, e)
        if key in seen:
            continue
        seen.add(key)
        body_txt = stmt
        in_loop = how == "for" or re.match(r"^(for|while|loop)\b", body_txt) is not None
        folds = bool(FOLD_RE.search(body_txt)) or (in_loop and bool(ACC_ASSIGN_RE.search(body_txt)))
        floaty = bool(re.search(r"\bf64\b|\bf32\b|\bsi::|\buc::|\d\.\d*|\d\.(?!\w)", body_txt))
        elem_int = elem_is_int(elem) and not floaty
        out.append({
            "file": f.rel, "line": f.line(pos), "fn": fd.name, "stmt": stmt, "container": fam,
            "elemTy": elem or "?", "folds": folds, "elemInt": elem_int, "how": how,
        })


# --------------------------------------------------------------------------------------------------
# whole crate
# --------------------------------------------------------------------------------------------------
def scan(repo):
    src = os.path.join(repo, SRC_REL)
    crate = Crate()
    sites = []
    if not os.path.isdir(src):
        raise ScanProblem(f"{src} not found")
    paths = []
    for d, _, fs in os.walk(src):
        for fn in fs:
            if fn.endswith(".rs"):
                paths.append(os.path.join(d, fn))
    paths.sort()
    for p in paths:
        rel = os.path.relpath(p, src)
        try:
            f = File(rel, open(p, encoding="utf-8").read())
            remove_cfg_test(f)
            crate.files.append(f)
        except ScanProblem as e:
            crate.problems.append((rel, 0, "", f"lexing failed: {e}"))
    for f in crate.files:
        try:
            parse_items(crate, f)
        except ScanProblem as e:
            crate.problems.append((f.rel, 0, "", f"item parsing failed: {e}"))
    # unknown hash container families
    for f in crate.files:
        for m in UNKNOWN_FAMILIES.finditer(f.code):
            crate.problems.append((f.rel, f.line(m.start()), "", f"unknown hash container family `{m.group(1)}`"))
    # process-wide / per-thread mutable state: a result that reads it depends on what ran before on that thread or process
    # (found by seeded change C18f: a `thread_local!` search hint inside `interp1d`). Every such item outside the
    # `verif-hooks` observer modules is reported as a problem, i.e. becomes an `unreviewed` pseudo-site.
    hook_regions = {}
    for f in crate.files:
        regs = []
        for m in re.finditer(r'#\[cfg\(feature\s*=\s*"verif-hooks"\)\]\s*(?:pub\s+)?mod\s+\w+\s*\{', f.code):
            try:
                regs.append((m.start(), match_close(f.code, m.end() - 1)))
            except ScanProblem:
                regs.append((m.start(), len(f.code)))
        hook_regions[f.rel] = regs
    GLOBAL_STATE = re.compile(
        r"\bthread_local!|\blazy_static!|\bstatic\s+mut\b|"
        r"\bstatic\s+(?:ref\s+)?[A-Z_][A-Z0-9_]*\s*:[^;=]*\b(?:Mutex|RwLock|Atomic\w*|Cell|RefCell|OnceCell|OnceLock|Lazy|LazyLock|LazyCell)\b")
    for f in crate.files:
        for m in GLOBAL_STATE.finditer(f.code):
            if any(a <= m.start() <= b for (a, b) in hook_regions.get(f.rel, [])):
                continue
            crate.problems.append((f.rel, f.line(m.start()), "", "global mutable state `%s`: results may depend on thread / call history" % squash(m.group(0))[:60]))
    # names that denote hash containers somewhere (for the unresolved fallback)
    for defs in crate.structs.values():
        for sd in defs:
            for fname, (fty, piece, attrs, fpos) in sd.fields.items():
                fam = crate.family(fty)
                if fam:
                    k, v = crate.kv(fty)
                    crate.hash_field_names[fname] = (fam, k if v is None else f"({k},{v})")
    for fds in crate.fns.values():
        for fd in fds:
            for (pn, pt) in fd.params:
                fam = crate.family(pt) if pt else None
                if fam and pn != "self":
                    k, v = crate.kv(pt)
                    crate.hash_field_names.setdefault(pn, (fam, k if v is None else f"({k},{v})"))
    # function bodies
    for f in crate.files:
        for fd in f.fndefs:
            if fd.body is None:
                continue
            try:
                scan_fn(crate, f, fd, sites)
            except ScanProblem as e:
                crate.problems.append((f.rel, f.line(fd.pos), fd.name, f"scan of fn failed: {e}"))
            except RecursionError:
                crate.problems.append((f.rel, f.line(fd.pos), fd.name, "scan of fn failed: recursion"))
    # let-bound containers also count as hash names for later passes? (single pass is enough: they
    # are typed through the env)
    # serialized hash-typed fields
    for defs in crate.structs.values():
        for sd in defs:
            if not re.search(r"\bSerialize\b", sd.derives):
                continue
            for fname, (fty, piece, attrs, fpos) in sd.fields.items():
                w = crate.mentions_hash(fty)
                if not w:
                    continue
                if re.search(r"serde\s*\(\s*skip\s*[,)]|serde\s*\(\s*skip_serializing\s*[,)]", attrs):
                    continue
                fam = crate.family(fty) or crate.family(w)
                k, v = crate.kv(fty) if crate.family(fty) else ("?", "?")
                sites.append({
                    "file": sd.file.rel, "line": sd.file.line(fpos), "fn": "struct " + sd.name,
                    "stmt": squash(strip_attrs(piece)), "container": fam, "elemTy": k if v is None else f"({k},{v})",
                    "folds": False, "elemInt": True, "how": "serialize-field",
                })
    # rayon
    for f in crate.files:
        for m in list(RAYON_METHOD_RE.finditer(f.code)) + list(RAYON_PATH_RE.finditer(f.code)):
            pos = m.start()
            fd = None
            for x in f.fndefs:
                if x.body and x.body[0] <= pos <= x.body[1]:
                    if fd is None or x.body[0] > fd.body[0]:
                        fd = x
            if fd is None:
                line_txt = f.code[f.code.rfind("\n", 0, pos) + 1:f.code.find("\n", pos)]
                if re.match(r"\s*(pub\s+)?use\b", line_txt):
                    continue
                sites.append({"file": f.rel, "line": f.line(pos), "fn": "", "stmt": squash(line_txt),
                              "container": "rayon", "elemTy": "?", "folds": False, "elemInt": False, "how": "rayon"})
                continue
            s, e = enclosing_statement(f.code, fd.body, pos)
            stmt = squash(f.code[s:e])
            folds = bool(re.search(r"\.(sum|product|reduce|reduce_with|fold|fold_with|try_reduce|try_fold|min_by|max_by|"
                                   r"find_any|find_map_any|position_any|collect_into_vec|for_each_with)(::<[^>]*>)?\(", stmt))
            floaty = bool(re.search(r"\bf64\b|\bf32\b|\bsi::|\buc::|\d\.\d", stmt))
            sites.append({"file": f.rel, "line": f.line(pos), "fn": fd.name, "stmt": stmt, "container": "rayon",
                          "elemTy": "LocomotiveSimulation" if "loco_sim" in stmt else "?", "folds": folds,
                          "elemInt": not floaty, "how": "rayon"})
    # polars (listed, not judged)
    foreign = []
    for f in crate.files:
        for m in POLARS_RE.finditer(f.code):
            foreign.append({"file": f.rel, "line": f.line(m.start()), "call": m.group(1)})
    # problems -> pseudo sites
    for (rel, line, fn, what) in crate.problems:
        sites.append({"file": rel, "line": line, "fn": fn, "stmt": "SCANNER: " + what, "container": "unresolved",
                      "elemTy": "?", "folds": False, "elemInt": False, "how": "problem"})
    # de-duplicate (same file, same statement)
    uniq, seen = [], set()
    for s in sites:
        k = (s["file"], s["fn"], s["stmt"], s["container"])
        if k in seen:
            continue
        seen.add(k)
        uniq.append(s)
    uniq.sort(key=lambda s: (s["file"], s["line"], s["stmt"]))
    # justification
    table = {(fl, fn, st, ct): (j, note) for (fl, fn, st, ct, j, note) in REVIEWED}
    used = set()
    for s in uniq:
        key = (s["file"], s["fn"], s["stmt"], s["container"])
        j, note = table.get(key, ("unreviewed", ""))
        if key in table:
            used.add(key)
        if s["how"] == "problem":
            j = "unreviewed"
        # the rule: a fold over a non-integer type in hash / scheduling order is never justified
        if s["folds"] and not s["elemInt"] and s["container"] not in (INT_MAP, INT_SET):
            j = "unreviewed"
        if s["container"] == "unresolved":
            j = "unreviewed" if key not in table else j
        s["just"] = j
        s["note"] = note
    stale = [k for k in table if k not in used]
    return uniq, foreign, stale, crate


def lean_str(s):
    return '"' + s.replace("\\", "\\\\").replace('"', '\\"').replace("\n", " ") + '"'


def render(sites, foreign, stale):
    L = []
    L.append("import Altrios.Par")
    L.append("/-")
    L.append("  GENERATED by /verif/scan/scan_order_sites.py from /repo/rust/altrios-core/src — do not edit.")
    L.append("  Every iteration over a std HashMap/HashSet or nohash IntMap/IntSet, every hash-typed field of a")
    L.append("  Serialize struct and every rayon call found in the CURRENT source (unit tests excluded), with the")
    L.append("  justification the reviewed table of the scanner assigns to it (`unreviewed` = none).")
    L.append("  Obligations over this table: Proofs/C18.lean (`C18_sites_reviewed`, `C18_sites_anchored`).")
    L.append("-/")
    L.append("namespace Generated.OrderSites")
    L.append("open Altrios.Par")
    L.append("")
    L.append("def sites : List Site := [")
    rows = []
    for s in sites:
        expr = s["stmt"] if len(s["stmt"]) <= 240 else s["stmt"][:237] + "..."
        rows.append("  { file := %s, line := %d, fn := %s,\n    expr := %s,\n    container := .%s, elemTy := %s, folds := %s, elemInt := %s, just := .%s }" % (
            lean_str(s["file"]), s["line"], lean_str(s["fn"]), lean_str(expr), s["container"], lean_str(s["elemTy"]),
            "true" if s["folds"] else "false", "true" if s["elemInt"] else "false", s["just"]))
    L.append(",\n".join(rows))
    L.append("]")
    L.append("")
    L.append("/-- entries of the scanner's reviewed table that no longer match any site (edited or removed code) -/")
    L.append("def staleReviews : List (String × String) := [" + ", ".join(
        "(%s, %s)" % (lean_str(k[0]), lean_str(k[1])) for k in stale) + "]")
    L.append("")
    L.append("/-- calls into polars whose row order is unspecified (listed for information; NOT judged by C18) -/")
    L.append("def foreignUnordered : List (String × Nat × String) := [" + ", ".join(
        "(%s, %d, %s)" % (lean_str(x["file"]), x["line"], lean_str(x["call"])) for x in foreign) + "]")
    L.append("")
    L.append("end Generated.OrderSites")
    return "\n".join(L) + "\n"


def regen(root, repo="/repo"):
    """called by ./check (cfg/C18.py PROP['pre']): rewrite lean/Generated/OrderSites.lean from the working tree"""
    out = os.path.join(root, "lean", "Generated", "OrderSites.lean")
    try:
        sites, foreign, stale, _ = scan(repo)
    except Exception as e:   # noqa: BLE001 — whatever went wrong, the table must not look fine
        sites = [{"file": "", "line": 0, "fn": "", "stmt": "SCANNER: crashed: %s: %s" % (type(e).__name__, e),
                  "container": "unresolved", "elemTy": "?", "folds": False, "elemInt": False, "just": "unreviewed"}]
        foreign, stale = [], []
    for s in sites:
        if s["just"] == "unreviewed":
            print("C18 order-sites: UNREVIEWED %s:%s fn=%s [%s] %s" % (s["file"], s["line"], s["fn"], s["container"], s["stmt"][:300]))
    txt = render(sites, foreign, stale)
    os.makedirs(os.path.dirname(out), exist_ok=True)
    if not os.path.exists(out) or open(out).read() != txt:
        with open(out, "w") as fo:
            fo.write(txt)
    work = os.path.join(root, "work", "C18-scan")
    os.makedirs(work, exist_ok=True)
    with open(os.path.join(work, "order-sites.json"), "w") as fo:
        json.dump({"sites": sites, "foreign_unordered": foreign, "stale_reviews": stale}, fo, indent=1)
    return sites


def main():
    args = sys.argv[1:]
    repo, out, dump = "/repo", None, False
    i = 0
    while i < len(args):
        if args[i] == "--repo":
            repo = args[i + 1]; i += 1
        elif args[i] == "--out":
            out = args[i + 1]; i += 1
        elif args[i] == "--dump":
            dump = True
        i += 1
    sites, foreign, stale, crate = scan(repo)
    if dump:
        for s in sites:
            print(f"{s['file']}:{s['line']} fn={s['fn']} [{s['container']}/{s['how']}] elem={s['elemTy']} folds={s['folds']} "
                  f"int={s['elemInt']} -> {s['just']}\n    {s['stmt']}")
        print("stale:", stale)
        print("foreign:", len(foreign))
        print("aliases:", {k: v for k, v in crate.aliases.items() if crate.family(k)})
        print("hash names:", crate.hash_field_names)
    if out:
        txt = render(sites, foreign, stale)
        if not os.path.exists(out) or open(out).read() != txt:
            open(out, "w").write(txt)
    bad = [s for s in sites if s["just"] == "unreviewed"]
    print(f"order-sites: {len(sites)} sites, {len(bad)} unreviewed, {len(stale)} stale reviews, {len(foreign)} foreign")
    return 1 if bad else 0


if __name__ == "__main__":
    sys.exit(main())
