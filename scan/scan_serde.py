#!/usr/bin/env python3
"""
scan_serde.py — re-extracts, from the Rust source of altrios-core, the table of every type that
derives (or hand-implements) serde's Serialize/Deserialize together with the attributes that
determine the STRUCTURAL codec (which fields are written, under which key, in which order, what a
missing field becomes on load):

    #[serde(default)]  #[serde(default = "path")]  #[serde(skip)]
    #[serde(skip_serializing_if = "path")]  #[serde(rename = "k")]  #[serde(alias = "k")]
    #[serde(deserialize_with = "path")]

and writes it as a Lean table  /verif/lean/Generated/SerdeSchema.lean  (consumed by
Altrios/Serde.lean: `resolve`, `SchemaWF`; obligations over it are `decide`d in Proofs/C17.lean),
plus a JSON dump (work/serde_schema.json) for humans.

It is a careful tokenizer + bracket matcher, not a Rust parser.  It FAILS LOUDLY (exit 2, message
naming file:line) on every shape it does not understand: an unknown serde attribute (field,
variant or container level), a struct-like enum variant, a field type it cannot classify, a
generic parameter it cannot instantiate, a type that both derives and hand-implements a codec …
Python 3 stdlib only.

usage: scan_serde.py [--src DIR] [--out FILE.lean] [--json FILE.json] [--print]
"""
import json
import os
import re
import sys

SRC_DEFAULT = "/repo/rust/altrios-core/src"
HERE = os.path.dirname(os.path.abspath(__file__))
ROOT = os.path.dirname(HERE)
OUT_DEFAULT = os.path.join(ROOT, "lean", "Generated", "SerdeSchema.lean")
JSON_DEFAULT = os.path.join(ROOT, "work", "serde_schema.json")


class ScanError(Exception):
    pass


def die(path, line, msg):
    raise ScanError(f"{path}:{line}: {msg}")


# ------------------------------------------------------------------------------------ tokenizer
# token = (kind, text, line);  kind in {id, punct, str, char, num, life}
PUNCT3 = ("<<=", ">>=", "...", "..=")
PUNCT2 = ("::", "->", "=>", "==", "!=", "<=", ">=", "&&", "||", "+=", "-=", "*=", "/=", "..", "<<", "|=", "&=", "^=",
          "%=")


def tokenize(path, src):
    toks = []
    i, n, line = 0, len(src), 1
    while i < n:
        c = src[i]
        if c == "\n":
            line += 1
            i += 1
        elif c in " \t\r":
            i += 1
        elif src.startswith("//", i):
            j = src.find("\n", i)
            i = n if j < 0 else j
        elif src.startswith("/*", i):
            depth, j = 1, i + 2
            while j < n and depth:
                if src.startswith("/*", j):
                    depth += 1
                    j += 2
                elif src.startswith("*/", j):
                    depth -= 1
                    j += 2
                else:
                    if src[j] == "\n":
                        line += 1
                    j += 1
            if depth:
                die(path, line, "unterminated block comment")
            i = j
        elif c == '"' or (c in "br" and re.match(r'b?r?#*"', src[i:i + 8]) and not re.match(r"[A-Za-z0-9_]", src[i - 1:i] or " ")):
            m = re.match(r'(b?)(r?)(#*)"', src[i:])
            raw, hashes = m.group(2) == "r", m.group(3)
            if hashes and not raw:
                die(path, line, "unexpected # before string literal")
            j = i + m.end()
            start_line = line
            if raw:
                end = '"' + hashes
                k = src.find(end, j)
                if k < 0:
                    die(path, line, "unterminated raw string")
                body = src[j:k]
                line += body.count("\n")
                j = k + len(end)
            else:
                buf = []
                while True:
                    if j >= n:
                        die(path, start_line, "unterminated string literal")
                    ch = src[j]
                    if ch == "\\":
                        buf.append(src[j:j + 2])
                        if src[j + 1] == "\n":
                            line += 1
                        j += 2
                    elif ch == '"':
                        j += 1
                        break
                    else:
                        if ch == "\n":
                            line += 1
                        buf.append(ch)
                        j += 1
                body = "".join(buf)
            toks.append(("str", body, start_line))
            i = j
        elif c == "'":
            # char literal or lifetime
            m = re.match(r"'(\\.[^']*|[^'\\])'", src[i:])
            if m:
                toks.append(("char", m.group(0), line))
                i += m.end()
            else:
                m = re.match(r"'[A-Za-z_][A-Za-z0-9_]*", src[i:])
                if not m:
                    die(path, line, "cannot tokenize after single quote")
                toks.append(("life", m.group(0), line))
                i += m.end()
        elif c.isalpha() or c == "_":
            m = re.match(r"[A-Za-z_][A-Za-z0-9_]*", src[i:])
            toks.append(("id", m.group(0), line))
            i += m.end()
        elif c.isdigit():
            m = re.match(r"[0-9][0-9A-Za-z_]*(\.[0-9][0-9A-Za-z_]*)?([eE][+-]?[0-9_]+)?[A-Za-z0-9_]*", src[i:])
            toks.append(("num", m.group(0), line))
            i += m.end()
        else:
            for p in PUNCT3 + PUNCT2:
                if src.startswith(p, i):
                    toks.append(("punct", p, line))
                    i += len(p)
                    break
            else:
                toks.append(("punct", c, line))
                i += 1
    return toks


OPEN = {"(": ")", "[": "]", "{": "}"}
CLOSE = {v: k for k, v in OPEN.items()}


def match_close(path, toks, i):
    """toks[i] is an opening bracket; returns the index of its matching closer"""
    stack = []
    j = i
    while j < len(toks):
        k, t, ln = toks[j]
        if k == "punct" and t in OPEN:
            stack.append(t)
        elif k == "punct" and t in CLOSE:
            if not stack or stack[-1] != CLOSE[t]:
                die(path, ln, f"bracket mismatch at {t!r}")
            stack.pop()
            if not stack:
                return j
        j += 1
    die(path, toks[i][2], "unclosed bracket")


def split_top(path, toks, sep=","):
    """split a token list at top-level separators; `<`/`>` are tracked for generics"""
    parts, cur, depth, angle = [], [], 0, 0
    for tk in toks:
        k, t, ln = tk
        if k == "punct" and t in OPEN:
            depth += 1
        elif k == "punct" and t in CLOSE:
            depth -= 1
        elif k == "punct" and t == "<" and depth == 0:
            angle += 1
        elif k == "punct" and t == ">" and depth == 0:
            angle -= 1
        elif k == "punct" and t == ">>" and depth == 0:
            angle -= 2
        elif k == "punct" and t == "->":
            pass
        if k == "punct" and t == sep and depth == 0 and angle == 0:
            parts.append(cur)
            cur = []
        else:
            cur.append(tk)
    if cur:
        parts.append(cur)
    return parts


def text(toks):
    out = []
    for k, t, _ in toks:
        out.append('"' + t + '"' if k == "str" else t)
    return " ".join(out)


# ------------------------------------------------------------------------------------ attributes
SERDE_FIELD_KEYS = {"default", "skip", "skip_serializing_if", "rename", "alias", "deserialize_with"}
KNOWN_SKIP_PREDS = {"EqDefault::eq_default": "eqDefault", "Option::is_none": "isNone"}
# non-serde field attributes we know not to influence the codec
IGNORED_FIELD_ATTRS = {"doc", "api", "has_state", "allow", "cfg_attr", "pyo3"}
IGNORED_ITEM_ATTRS = {"doc", "altrios_api", "allow", "cfg_attr", "readonly::make", "pyclass", "repr", "non_exhaustive",
                      "must_use", "inline", "cfg"}


def parse_attr(path, toks, i):
    """toks[i] == '#'.  returns (name, inner_tokens, next_index, line)"""
    ln = toks[i][2]
    j = i + 1
    if toks[j][1] == "!":
        j += 1
    if toks[j][1] != "[":
        die(path, ln, "expected [ after #")
    e = match_close(path, toks, j)
    inner = toks[j + 1:e]
    if not inner:
        die(path, ln, "empty attribute")
    # attribute path  a::b
    name = inner[0][1]
    k = 1
    while k + 1 < len(inner) and inner[k][1] == "::":
        name += "::" + inner[k + 1][1]
        k += 2
    return name, inner[k:], e + 1, ln


def parse_serde_items(path, ln, rest, allowed, where):
    """rest = tokens after the word `serde` (must be a single parenthesised list)"""
    if not rest or rest[0][1] != "(" or rest[-1][1] != ")":
        die(path, ln, f"serde attribute without (...) on {where}")
    items = {}
    for part in split_top(path, rest[1:-1]):
        if not part:
            continue
        key = part[0][1]
        if part[0][0] != "id" or key not in allowed:
            die(path, ln, f"serde attribute `{text(part)}` on {where} is not understood by the scanner")
        if len(part) == 1:
            val = True
        elif len(part) == 3 and part[1][1] == "=" and part[2][0] == "str":
            val = part[2][1]
        else:
            die(path, ln, f"serde attribute `{text(part)}` on {where}: unexpected shape")
        if key == "alias":
            items.setdefault("alias", []).append(val)
        else:
            if key in items:
                die(path, ln, f"serde attribute `{key}` given twice on {where}")
            items[key] = val
    return items


def derive_list(path, ln, rest):
    if not rest or rest[0][1] != "(":
        die(path, ln, "derive without (...)")
    names = []
    for part in split_top(path, rest[1:-1]):
        if part:
            names.append(part[-1][1])  # last path segment
    return names


# ------------------------------------------------------------------------------------ item scan
class TypeDef:
    def __init__(self):
        self.name = None
        self.kind = None  # struct | tuple | unit | enum | custom
        self.generics = []
        self.fields = []  # struct: dicts; tuple: dicts with name "0", "1"...
        self.variants = []  # enum: dicts {name, kind: unit|newtype, ty}
        self.derives = []
        self.file = None
        self.line = None
        self.ser = False
        self.de = False
        self.history_of = None


def scan_fields_named(path, toks, where):
    """toks = tokens between { } of a struct with named fields"""
    fields = []
    i = 0
    n = len(toks)
    while i < n:
        attrs = {}
        ln0 = toks[i][2]
        while i < n and toks[i][1] == "#":
            name, rest, i, ln = parse_attr(path, toks, i)
            if name == "serde":
                got = parse_serde_items(path, ln, rest, SERDE_FIELD_KEYS, f"field of {where}")
                for k, v in got.items():
                    if k == "alias":
                        attrs.setdefault("alias", []).extend(v)
                    elif k in attrs:
                        die(path, ln, f"serde attribute `{k}` given twice on a field of {where}")
                    else:
                        attrs[k] = v
            elif name not in IGNORED_FIELD_ATTRS:
                die(path, ln, f"field attribute #[{name}] on {where} is not understood by the scanner")
        if i >= n:
            die(path, ln0, f"attributes without a field in {where}")
        # visibility
        if toks[i][1] == "pub":
            i += 1
            if i < n and toks[i][1] == "(":
                i = match_close(path, toks, i) + 1
        if toks[i][0] != "id" or i + 1 >= n or toks[i + 1][1] != ":":
            die(path, toks[i][2], f"cannot read field name in {where} at `{text(toks[i:i+3])}`")
        fname = toks[i][1]
        fline = toks[i][2]
        i += 2
        # type: up to the next top-level comma
        j = i
        depth = angle = 0
        while j < n:
            k, t, _ = toks[j]
            if k == "punct" and t in OPEN:
                depth += 1
            elif k == "punct" and t in CLOSE:
                depth -= 1
            elif t == "<" and k == "punct":
                angle += 1
            elif t == ">" and k == "punct":
                angle -= 1
            elif t == ">>" and k == "punct":
                angle -= 2
            elif t == "," and depth == 0 and angle == 0:
                break
            j += 1
        ty = toks[i:j]
        if not ty:
            die(path, fline, f"field {fname} of {where} has no type")
        fields.append({"name": fname, "ty_toks": ty, "attrs": attrs, "line": fline})
        i = j + 1
    return fields


def scan_fields_tuple(path, toks, where):
    fields = []
    for idx, part in enumerate(split_top(path, toks)):
        if not part:
            continue
        i = 0
        while i < len(part) and part[i][1] == "#":
            name, rest, i, ln = parse_attr(path, part, i)
            if name == "serde":
                die(path, ln, f"serde attribute on a tuple field of {where} is not understood by the scanner")
            if name not in IGNORED_FIELD_ATTRS:
                die(path, ln, f"attribute #[{name}] on a tuple field of {where} is not understood by the scanner")
        if i < len(part) and part[i][1] == "pub":
            i += 1
            if i < len(part) and part[i][1] == "(":
                i = match_close(path, part, i) + 1
        if i >= len(part):
            die(path, part[0][2], f"empty tuple field in {where}")
        fields.append({"name": str(idx), "ty_toks": part[i:], "attrs": {}, "line": part[i][2]})
    return fields


def scan_variants(path, toks, where):
    vs = []
    for part in split_top(path, toks):
        if not part:
            continue
        i = 0
        while i < len(part) and part[i][1] == "#":
            name, rest, i, ln = parse_attr(path, part, i)
            if name == "serde":
                die(path, ln, f"serde attribute on a variant of {where} is not understood by the scanner")
            if name not in ("doc", "default", "allow"):
                die(path, ln, f"attribute #[{name}] on a variant of {where} is not understood by the scanner")
        if i >= len(part) or part[i][0] != "id":
            die(path, part[0][2], f"cannot read variant name in {where}")
        vname = part[i][1]
        rest = part[i + 1:]
        if not rest:
            vs.append({"name": vname, "kind": "unit", "ty_toks": None, "line": part[i][2]})
        elif rest[0][1] == "(" and rest[-1][1] == ")":
            inner = split_top(path, rest[1:-1])
            inner = [p for p in inner if p]
            if len(inner) != 1:
                die(path, part[i][2], f"tuple variant {where}::{vname} with {len(inner)} fields is not understood by the scanner")
            vs.append({"name": vname, "kind": "newtype", "ty_toks": inner[0], "line": part[i][2]})
        elif rest[0][1] == "=":
            # explicit discriminant on a unit variant: serde uses the declaration index, not the value
            vs.append({"name": vname, "kind": "unit", "ty_toks": None, "line": part[i][2]})
        else:
            die(path, part[i][2], f"variant {where}::{vname} has a shape the scanner does not understand (struct-like?)")
    return vs


def scan_file(path, modpath, src, types, customs, info):
    """scans one module file; returns the list of out-of-line child modules [(name, line)].
    `info[modpath]` collects what name resolution needs: use-aliases and glob re-exports."""
    toks = tokenize(path, src)
    n = len(toks)
    i = 0
    pending = []  # attributes seen immediately before the current item
    children = []
    inline_until = []  # [(index of closing brace, name)] of enclosing inline modules
    depth = 0  # brace depth relative to the (possibly inline) module
    me = info.setdefault(modpath, {"file": path, "alias": {}, "globs": [], "uses": []})
    while i < n:
        k, t, ln = toks[i]
        while inline_until and i > inline_until[-1][0]:
            inline_until.pop()
        if k == "punct" and t == "{":
            depth += 1
        elif k == "punct" and t == "}":
            if inline_until and i == inline_until[-1][0]:
                pass
            else:
                depth -= 1
        # module-level type alias  `type X = T;`
        if k == "id" and t == "type" and depth == 0 and i + 2 < n and toks[i + 1][0] == "id" and toks[i + 2][1] == "=":
            j = i + 3
            while toks[j][1] != ";":
                j += 1
            info.setdefault("__aliases__", {}).setdefault(toks[i + 1][1], []).append(
                {"toks": toks[i + 3:j], "modpath": modpath, "file": path, "line": ln})
            pending = []
            i = j + 1
            continue
        if t == "#" and k == "punct":
            name, rest, j, aln = parse_attr(path, toks, i)
            pending.append((name, rest, aln))
            i = j
            continue
        is_test = any(nm == "cfg" and text(rs).replace(" ", "") == "(test)" for nm, rs, _ in pending)
        # `macro_rules! name { ... }`: skipped, but must not generate serializable types
        if k == "id" and t == "macro_rules" and i + 3 < n and toks[i + 1][1] == "!":
            j = i + 3
            if toks[j][1] not in OPEN:
                die(path, ln, "macro_rules! without a body")
            e = match_close(path, toks, j)
            if any(x[0] == "id" and x[1] in ("Serialize", "Deserialize") for x in toks[j:e]):
                die(path, ln, f"macro {toks[i+2][1]} mentions Serialize/Deserialize: macro-generated codecs are not understood by the scanner")
            pending = []
            i = e + 1
            continue
        # modules: `#[cfg(test)] mod x {…}` / `#[cfg(test)] mod x;` are skipped entirely
        if k == "id" and t == "mod" and i + 2 < n and toks[i + 1][0] == "id" and toks[i + 2][1] in ("{", ";"):
            pending = []
            if toks[i + 2][1] == "{":
                e = match_close(path, toks, i + 2)
                if is_test:
                    i = e + 1
                else:
                    # inline module compiled into the crate: scanned transparently, but a
                    # serializable type inside it is refused below (its path would be wrong)
                    inline_until.append((e, toks[i + 1][1]))
                    i += 3
            else:
                if not is_test:
                    children.append((toks[i + 1][1], ln))
                i += 3
            continue
        # use declarations: aliases (`X as Y`) and glob re-exports (`pub use a::b::*`)
        if k == "id" and t == "use":
            j = i
            while toks[j][1] != ";":
                j += 1
            stmt = toks[i + 1:j]
            is_pub = i > 0 and (toks[i - 1][1] == "pub" or toks[i - 1][1] == ")")
            segs = [x[1] for x in stmt if x[0] == "id"]
            me["uses"].append(segs)
            for q in range(len(stmt) - 2):
                if stmt[q][0] == "id" and stmt[q + 1][1] == "as" and stmt[q + 2][0] == "id":
                    hint = []
                    # path segments textually preceding X inside this use statement
                    for x in stmt[:q]:
                        if x[0] == "id" and x[1] not in ("super", "crate", "self", "as"):
                            hint.append(x[1])
                    me["alias"][stmt[q + 2][1]] = (stmt[q][1], hint)
            if is_pub and stmt and stmt[-1][1] == "*" and all(x[1] != "{" for x in stmt):
                me["globs"].append([x[1] for x in stmt if x[0] == "id" and x[1] not in ("self",)])
            pending = []
            i = j + 1
            continue
        if k == "id" and t in ("struct", "enum") and i + 1 < n and toks[i + 1][0] == "id":
            # make sure this is an item keyword, not e.g. a macro fragment: previous token must be
            # start of file, `pub`, `)`, `]`, `}` or `;`
            prev = toks[i - 1][1] if i else ";"
            if prev not in ("pub", ")", "]", "}", ";", "{"):
                die(path, ln, f"`{t}` keyword in an unexpected position (after `{prev}`)")
            td = TypeDef()
            td.name = toks[i + 1][1]
            td.file, td.line = path, ln
            td.modpath = modpath
            td.qname = "::".join(modpath + (td.name,))
            td.cfg = [text(rs) for nm, rs, _ in pending if nm == "cfg"]
            j = i + 2
            if toks[j][1] == "<":
                # generics: collect identifiers up to the matching '>'
                depth = 0
                g = []
                while True:
                    if toks[j][1] == "<":
                        depth += 1
                    elif toks[j][1] == ">":
                        depth -= 1
                        if depth == 0:
                            j += 1
                            break
                    elif toks[j][0] == "id" and depth == 1 and toks[j - 1][1] in ("<", ","):
                        g.append(toks[j][1])
                    elif toks[j][0] == "life":
                        pass
                    j += 1
                td.generics = g
            derives = []
            container_serde = []
            for nm, rs, aln in pending:
                if nm == "derive":
                    derives += derive_list(path, aln, rs)
                elif nm == "serde":
                    container_serde.append((rs, aln))
                elif nm not in IGNORED_ITEM_ATTRS:
                    # an unknown attribute macro could rewrite the item: only tolerated on
                    # types that are not serializable (checked below)
                    td.__dict__.setdefault("odd_attrs", []).append((nm, aln))
            pending = []
            td.derives = derives
            td.ser = "Serialize" in derives
            td.de = "Deserialize" in derives
            # body
            if t == "struct":
                # optional where clause is not expected before the body of serializable structs
                if toks[j][1] == "{":
                    e = match_close(path, toks, j)
                    body = toks[j + 1:e]
                    td.kind = "struct"
                    if td.ser or td.de or "HistoryVec" in derives:
                        td.fields = scan_fields_named(path, body, td.name)
                    i = e + 1
                elif toks[j][1] == "(":
                    e = match_close(path, toks, j)
                    td.kind = "tuple"
                    if td.ser or td.de:
                        td.fields = scan_fields_tuple(path, toks[j + 1:e], td.name)
                    i = e + 1
                elif toks[j][1] == ";":
                    td.kind = "unit"
                    i = j + 1
                elif toks[j][1] == "where":
                    if td.ser or td.de:
                        die(path, ln, f"where clause on serializable struct {td.name} is not understood by the scanner")
                    i = j + 1
                    continue
                else:
                    die(path, ln, f"cannot read body of struct {td.name}")
            else:
                if toks[j][1] != "{":
                    die(path, ln, f"cannot read body of enum {td.name}")
                e = match_close(path, toks, j)
                td.kind = "enum"
                if td.ser or td.de:
                    td.variants = scan_variants(path, toks[j + 1:e], td.name)
                i = e + 1
            if (td.ser or td.de) and inline_until:
                die(path, ln, f"serializable type {td.name} inside inline module `{inline_until[-1][1]}` is not understood by the scanner")
            if td.ser or td.de:
                if td.ser != td.de:
                    die(path, ln, f"{td.name} derives only one of Serialize/Deserialize: not understood by the scanner")
                if container_serde:
                    die(path, container_serde[0][1],
                        f"container-level serde attribute `{text(container_serde[0][0])}` on {td.name} is not understood by the scanner")
                if getattr(td, "odd_attrs", None):
                    nm, aln = td.odd_attrs[0]
                    die(path, aln, f"attribute #[{nm}] on serializable type {td.name} is not understood by the scanner")
                if td.qname in types:
                    o = types[td.qname]
                    die(path, ln, f"serializable type {td.qname} defined twice (also {o.file}:{o.line})")
                types[td.qname] = td
            elif "HistoryVec" in derives:
                die(path, ln, f"{td.name} derives HistoryVec but not Serialize/Deserialize: not understood")
            continue
        # hand-written impls:  impl [<..>] [path::]Serialize for X   /   impl<'de> [path::]Deserialize<'de> for X
        if k == "id" and t == "impl":
            j = i + 1
            if toks[j][1] == "<":
                depth = 0
                while True:
                    if toks[j][1] == "<":
                        depth += 1
                    elif toks[j][1] == ">":
                        depth -= 1
                        if depth == 0:
                            j += 1
                            break
                    elif toks[j][1] == ">>":
                        depth -= 2
                        if depth <= 0:
                            j += 1
                            break
                    j += 1
            # read the trait path up to `for` or `{`
            seg = []
            while j < n and toks[j][1] not in ("for", "{", "where"):
                seg.append(toks[j])
                j += 1
            if j < n and toks[j][1] == "for":
                trait_ids = [x[1] for x in seg if x[0] == "id"]
                # last identifier before generics
                tname = None
                for x in seg:
                    if x[1] == "<":
                        break
                    if x[0] == "id":
                        tname = x[1]
                if tname in ("Serialize", "Deserialize"):
                    tgt = toks[j + 1][1]
                    if toks[j + 1][0] != "id" or toks[j + 2][1] not in ("{", "where"):
                        die(path, ln, f"hand-written {tname} impl for a type expression the scanner does not understand")
                    customs.setdefault(tgt, {"file": path, "line": ln, "ser": False, "de": False, "modpath": modpath})
                    customs[tgt]["ser" if tname == "Serialize" else "de"] = True
                _ = trait_ids
            pending = []
            i += 1
            continue
        if not (k == "id" and t in ("pub", "crate", "super", "self", "in")) and not (k == "punct" and t in ("(", ")", "::")):
            pending = []
        i += 1
    return children


# ------------------------------------------------------------------------------------ types
ATOMS = {
    "f64", "f32", "u8", "u16", "u32", "u64", "usize", "i8", "i16", "i32", "i64", "isize", "bool", "String", "char",
    "NonZeroU16", "NonZeroU8", "NonZeroU32", "NonZeroU64", "NonZeroUsize",
}


class Resolver:
    """Name resolution for type references, enough for this crate and failing loudly otherwise:
       1. `use … X as Y` aliases of the referencing file;
       2. multi-segment paths (`method::Strap`): every given segment must occur, in order, in the
          candidate's module path;
       3. a bare name defined in the referencing file;
       4. a unique definition crate-wide;
       5. several definitions: the unique one that its parent module glob-re-exports
          (`pub use <mod>::*`), i.e. the one reachable under the shorter public path."""

    def __init__(self, types, customs, info):
        self.types, self.customs, self.info = types, customs, info
        self.by_bare = {}
        for q, td in types.items():
            self.by_bare.setdefault(td.name, []).append(td)

    def reexported(self, td):
        parent = td.modpath[:-1]
        me = self.info.get(parent)
        return bool(me) and any(g and g[-1] == td.modpath[-1] for g in me["globs"]) if td.modpath else True

    @staticmethod
    def in_order(segs, modpath):
        it = iter(modpath)
        return all(any(s == m for m in it) for s in segs)

    def resolve(self, path, ln, segs, modpath, where):
        bare = segs[-1]
        quals = [s for s in segs[:-1] if s not in ("super", "crate", "self")]
        me = self.info[modpath]
        if len(segs) == 1 and bare in me["alias"]:
            bare, quals = me["alias"][bare]
        cands = self.by_bare.get(bare, [])
        if not cands:
            return None
        if quals:
            c2 = [c for c in cands if self.in_order(quals, c.modpath)]
            if len(c2) == 1:
                return c2[0]
            die(path, ln, f"type path `{'::'.join(segs)}` in {where}: {len(c2)} candidate definitions "
                          f"({[c.qname for c in c2]}); not understood by the scanner")
        same = [c for c in cands if c.modpath == modpath]
        if len(same) == 1:
            return same[0]
        if len(cands) == 1:
            return cands[0]
        vis = [c for c in cands if self.reexported(c)]
        if len(vis) == 1:
            return vis[0]
        die(path, ln, f"type name `{bare}` in {where} is ambiguous ({[c.qname for c in cands]}); "
                      "not understood by the scanner")


def classify(path, ln, toks, R, modpath, env, where):
    """type tokens → nested tuple:
       ('atom', text) | ('unit',) | ('opt', t) | ('seq', t) | ('map', k, v) | ('ref', qname)
       | ('tuple', [t…]) | ('param', name) | ('inst', qname, [t…])"""
    s = text(toks)
    if not toks:
        die(path, ln, f"empty type in {where}")
    rec = lambda tk: classify(path, ln, tk, R, modpath, env, where)  # noqa: E731
    # tuple type
    if toks[0][1] == "(" and match_close(path, toks, 0) == len(toks) - 1:
        parts = [p for p in split_top(path, toks[1:-1]) if p]
        if not parts:
            return ("unit",)
        return ("tuple", [rec(p) for p in parts])
    # fixed-size array [T; N]: serde treats it as an N-tuple (no length prefix)
    if toks[0][1] == "[" and match_close(path, toks, 0) == len(toks) - 1:
        parts = split_top(path, toks[1:-1], sep=";")
        if len(parts) == 2 and len(parts[1]) == 1 and parts[1][0][0] == "num" and parts[1][0][1].isdigit():
            n_el = int(parts[1][0][1])
            if 1 <= n_el <= 32:
                el = rec(parts[0])
                return ("tuple", [el] * n_el)
        die(path, ln, f"array type `{s}` in {where} is not understood by the scanner")
    if toks[0][0] != "id":
        die(path, ln, f"type `{s}` in {where} is not understood by the scanner")
    # path with optional generic args on the last segment
    segs = []
    i = 0
    while i < len(toks):
        if toks[i][0] != "id":
            die(path, ln, f"type `{s}` in {where} is not understood by the scanner")
        segs.append(toks[i][1])
        i += 1
        if i < len(toks) and toks[i][1] == "::":
            i += 1
            continue
        break
    args = []
    if i < len(toks):
        if toks[i][1] != "<" or toks[-1][1] not in (">", ">>"):
            die(path, ln, f"type `{s}` in {where} is not understood by the scanner")
        if toks[-1][1] == ">":
            inner = toks[i + 1:-1]
        else:  # `>>` closes two levels
            inner = toks[i + 1:-1] + [("punct", ">", toks[-1][2])]
        args = [p for p in split_top(path, inner) if p]
    last = segs[-1]
    if len(segs) == 1 and last in env:
        if args:
            die(path, ln, f"generic parameter {last} applied to arguments in {where}")
        return env[last]
    if last == "Option" and len(args) == 1:
        return ("opt", rec(args[0]))
    if last == "Vec" and len(args) == 1:
        return ("seq", rec(args[0]))
    if last == "Box" and len(args) == 1:
        return rec(args[0])  # serde: Box<T> is transparent
    if last in ("HashSet", "BTreeSet", "IntSet", "VecDeque") and len(args) == 1:
        return ("seq", rec(args[0]))  # serialised as a sequence (set iteration order: C18, not here)
    if last in ("HashMap", "BTreeMap", "IntMap") and len(args) in (2, 3):
        # map: self-describing = object keyed by the (unit-variant / string) key; positional =
        # length-prefixed sequence of (key, value) pairs.  Iteration order of HashMap is not
        # modelled (C18); the structural model treats the entry list as given.
        return ("map", rec(args[0]), rec(args[1]))
    if segs[0] == "si" and len(segs) == 2 and not args:
        return ("atom", "si::" + last)  # uom quantity: serialised as its f64 SI value (uom `use_serde`)
    if len(segs) == 1 and last in ATOMS and not args:
        return ("atom", last)
    td = R.resolve(path, ln, segs, modpath, where)
    if td is None:
        if last in R.customs and not args:
            return ("atom", "custom:" + last)
        al = R.info.get("__aliases__", {}).get(last, [])
        if len(segs) == 1 and not args and len(al) == 1:
            a = al[0]
            return classify(a["file"], a["line"], a["toks"], R, a["modpath"], {}, where + f" (alias {last})")
        die(path, ln, f"type `{s}` in {where} is not understood by the scanner "
                      "(not a primitive, uom quantity, Option/Vec/Box/HashMap, tuple, or serializable type of the crate)")
    if len(args) != len(td.generics):
        die(path, ln, f"type `{s}` in {where}: {td.qname} expects {len(td.generics)} generic arguments")
    if args:
        return ("inst", td.qname, [rec(a) for a in args])
    return ("ref", td.qname)


# ------------------------------------------------------------------------------------ driver
def walk_modules(src_dir, types, customs, info):
    """follows `mod x;` declarations from lib.rs (files that are not part of the module tree, e.g.
    a stale train/timed_path.rs, are not compiled and therefore not scanned)"""
    todo = [(os.path.join(src_dir, "lib.rs"), (), src_dir)]
    seen = []
    while todo:
        path, modpath, child_dir = todo.pop()
        seen.append(path)
        children = scan_file(path, modpath, open(path, encoding="utf-8").read(), types, customs, info)
        for name, ln in children:
            a = os.path.join(child_dir, name + ".rs")
            b = os.path.join(child_dir, name, "mod.rs")
            if os.path.exists(a) and os.path.exists(b):
                die(path, ln, f"module {name}: both {a} and {b} exist")
            if os.path.exists(a):
                todo.append((a, modpath + (name,), os.path.join(child_dir, name)))
            elif os.path.exists(b):
                todo.append((b, modpath + (name,), os.path.join(child_dir, name)))
            else:
                die(path, ln, f"module {name}: file not found")
    return seen


def short_names(types):
    """table key of every type: the bare name where unique, else the shortest module-qualified
    suffix that is unique (`link_old::Link`)"""
    out = {}
    by_bare = {}
    for q, td in types.items():
        by_bare.setdefault(td.name, []).append(td)
    for bare, tds in by_bare.items():
        if len(tds) == 1:
            out[tds[0].qname] = bare
            continue
        for td in tds:
            parts = list(td.modpath) + [td.name]
            for k in range(2, len(parts) + 1):
                cand = "::".join(parts[-k:])
                if sum(1 for o in tds if "::".join((list(o.modpath) + [o.name])[-k:]) == cand) == 1:
                    out[td.qname] = cand
                    break
            else:
                out[td.qname] = td.qname
    return out


def scan(src_dir):
    types, customs, info = {}, {}, {}
    walk_modules(src_dir, types, customs, info)
    # hand-written codecs
    for name, c in customs.items():
        if not (c["ser"] and c["de"]):
            die(c["file"], c["line"], f"{name} hand-implements only one of Serialize/Deserialize")
        if any(td.name == name for td in types.values()):
            die(c["file"], c["line"], f"{name} both derives and hand-implements a serde codec")
    # derive(HistoryVec): synthesises `<Name>HistoryVec` with one Vec per field, doc attributes only
    # (altrios-proc-macros/src/history_vec_derive.rs)
    for td in list(types.values()):
        if "HistoryVec" in td.derives:
            if td.kind != "struct" or td.generics:
                die(td.file, td.line, f"derive(HistoryVec) on {td.name}: shape not understood")
            for f in td.fields:
                if f["attrs"]:
                    # the derive copies only doc attributes: the state struct and its history would
                    # then be keyed differently — make that visible instead of guessing
                    die(td.file, f["line"], f"serde attribute on field {f['name']} of HistoryVec state {td.name}: "
                                           "the derive does not copy it to the history struct; not understood")
            h = TypeDef()
            h.name = td.name + "HistoryVec"
            h.kind = "struct"
            h.file, h.line = td.file, td.line
            h.modpath = td.modpath
            h.qname = "::".join(td.modpath + (h.name,))
            h.cfg = td.cfg
            h.ser = h.de = True
            h.history_of = td.name
            h.derives = ["Clone", "Debug", "Serialize", "Deserialize", "PartialEq", "SerdeAPI"]
            h.fields = [{"name": f["name"], "ty_toks": None, "vec_of": f["ty_toks"], "attrs": {}, "line": f["line"]}
                        for f in td.fields]
            if h.qname in types:
                die(td.file, td.line, f"{h.qname} already defined")
            types[h.qname] = h
    R = Resolver(types, customs, info)
    short = short_names(types)

    def rename(t):
        k = t[0]
        if k == "ref":
            return ("ref", short[t[1]])
        if k == "inst":
            return ("inst", short[t[1]], [rename(x) for x in t[2]])
        if k in ("opt", "seq"):
            return (k, rename(t[1]))
        if k == "map":
            return ("map", rename(t[1]), rename(t[2]))
        if k == "tuple":
            return ("tuple", [rename(x) for x in t[1]])
        return t

    out = {}
    for q in sorted(types):
        td = types[q]
        name = short[q]
        env = {g: ("param", g) for g in td.generics}
        rec = {"name": name, "qname": q, "kind": td.kind, "file": os.path.relpath(td.file, src_dir), "line": td.line,
               "generics": td.generics, "fields": [], "variants": [], "history_of": td.history_of, "cfg": td.cfg}
        for f in td.fields:
            where = f"{name}.{f['name']}"
            if f.get("vec_of") is not None:
                ty = ("seq", classify(td.file, f["line"], f["vec_of"], R, td.modpath, env, where))
            else:
                ty = classify(td.file, f["line"], f["ty_toks"], R, td.modpath, env, where)
            a = f["attrs"]
            skip = bool(a.get("skip", False))
            skip_if = "never"
            if "skip_serializing_if" in a:
                p = a["skip_serializing_if"]
                if p not in KNOWN_SKIP_PREDS:
                    die(td.file, f["line"], f"skip_serializing_if = \"{p}\" on {where}: predicate not understood by the scanner")
                skip_if = KNOWN_SKIP_PREDS[p]
            if "default" in a:
                dflt = ("std",) if a["default"] is True else ("fn", a["default"])
            else:
                dflt = ("none",)
            if skip and (skip_if != "never" or "rename" in a or "deserialize_with" in a):
                die(td.file, f["line"], f"{where}: serde(skip) combined with other serde attributes: not understood")
            rec["fields"].append({
                "name": f["name"], "key": a.get("rename", f["name"]), "alias": a.get("alias", []),
                "skip": skip, "skip_if": skip_if, "default": dflt,
                "de_with": a.get("deserialize_with"), "ty": rename(ty), "line": f["line"],
            })
        for v in td.variants:
            where = f"{name}::{v['name']}"
            ty = ("unit",) if v["kind"] == "unit" else classify(td.file, v["line"], v["ty_toks"], R, td.modpath, env, where)
            rec["variants"].append({"name": v["name"], "ty": rename(ty)})
        if name in out:
            die(td.file, td.line, f"internal: table key {name} not unique")
        out[name] = rec
    return out, customs



# ------------------------------------------------------------------------------------ Lean output
def lean_str(s):
    return '"' + s.replace("\\", "\\\\").replace('"', '\\"') + '"'


def lean_ty(t):
    k = t[0]
    if k == "atom":
        return f"(.atom {lean_str(t[1])})"
    if k == "unit":
        return ".unit"
    if k == "opt":
        return f"(.opt {lean_ty(t[1])})"
    if k == "seq":
        return f"(.seq {lean_ty(t[1])})"
    if k == "ref":
        return f"(.ref {lean_str(t[1])})"
    if k == "map":
        return f"(.map {lean_ty(t[1])} {lean_ty(t[2])})"
    if k == "param":
        return f"(.param {lean_str(t[1])})"
    if k == "tuple":
        return "(.tuple [" + ", ".join(lean_ty(x) for x in t[1]) + "])"
    if k == "inst":
        return f"(.inst {lean_str(t[1])} [" + ", ".join(lean_ty(x) for x in t[2]) + "])"
    raise ScanError(f"internal: cannot print type {t}")


def lean_field(f):
    d = f["default"]
    dl = {"none": ".none", "std": ".std"}.get(d[0]) or f"(.fn {lean_str(d[1])})"
    return ("{ name := " + lean_str(f["name"]) + ", key := " + lean_str(f["key"]) + ", skip := " +
            ("true" if f["skip"] else "false") + ", skipIf := ." + f["skip_if"] + ", dflt := " + dl +
            ", ty := " + lean_ty(f["ty"]) + " }")


def to_lean(table, customs, src_dir):
    L = []
    L.append("/-")
    L.append("  GENERATED by /verif/scan/scan_serde.py from <repo>/rust/altrios-core/src — DO NOT EDIT.")
    L.append("  Rewritten on every `./check C17` (cfg/C17.py PROP['pre']).  One entry per type that derives")
    L.append("  Serialize + Deserialize (plus the `<State>HistoryVec` structs synthesised by derive(HistoryVec)),")
    L.append("  fields in declaration order with the serde attributes that determine the structural codec.")
    L.append("-/")
    L.append("import Altrios.Serde")
    L.append("namespace Altrios.Serde.Generated")
    L.append("open Altrios.Serde")
    L.append("")
    L.append("def table : List RawDef := [")
    names = sorted(table)
    for idx, name in enumerate(names):
        r = table[name]
        sep = "," if idx + 1 < len(names) else ""
        kind = {"struct": ".struct", "tuple": ".tuple", "unit": ".unitStruct", "enum": ".enum"}[r["kind"]]
        L.append(f"  -- {r['file']}" + (f"  (derive(HistoryVec) of {r['history_of']})" if r["history_of"] else ""))
        L.append("  { name := " + lean_str(name) + ", kind := " + kind + ", params := [" +
                 ", ".join(lean_str(g) for g in r["generics"]) + "],")
        L.append("    fields := [")
        for j, f in enumerate(r["fields"]):
            L.append("      " + lean_field(f) + ("," if j + 1 < len(r["fields"]) else ""))
        L.append("    ],")
        L.append("    variants := [" + ", ".join("(" + lean_str(v["name"]) + ", " + lean_ty(v["ty"]) + ")" for v in r["variants"]) + "] }" + sep)
    L.append("]")
    L.append("")
    L.append("/-- types with a hand-written Serialize/Deserialize pair (leaves of the structural model) -/")
    L.append("def customCodecs : List String := [" + ", ".join(lean_str(c) for c in sorted(customs)) + "]")
    L.append("")
    L.append("/-- the scanner understood every serializable definition of the source -/")
    L.append("def scanOk : Bool := true")
    L.append("def scanError : String := \"\"")
    L.append("")
    L.append("end Altrios.Serde.Generated")
    return "\n".join(L) + "\n"


def summary(table):
    n_skipif = sum(1 for r in table.values() for f in r["fields"] if f["skip_if"] != "never")
    n_skip = sum(1 for r in table.values() for f in r["fields"] if f["skip"])
    n_def = sum(1 for r in table.values() for f in r["fields"] if f["default"][0] != "none")
    n_ren = sum(1 for r in table.values() for f in r["fields"] if f["key"] != f["name"])
    return {"types": len(table), "fields": sum(len(r["fields"]) for r in table.values()),
            "skip_serializing_if": n_skipif, "skip": n_skip, "default": n_def, "rename": n_ren}


def stub_lean(src_dir, msg):
    """written when the scanner does not understand the source: `scanOk = false` makes
    Proofs/C17.lean (theorem C17_scan_ok) fail to build, so the check reports a VIOLATION"""
    L = ["/-", "  GENERATED by /verif/scan/scan_serde.py from <repo>/rust/altrios-core/src — DO NOT EDIT.",
         "  THE SCANNER FAILED: " + msg.replace("-/", "- /"), "-/",
         "import Altrios.Serde", "namespace Altrios.Serde.Generated", "open Altrios.Serde", "",
         "def table : List RawDef := []", "def customCodecs : List String := []",
         "def scanOk : Bool := false", "def scanError : String := " + lean_str(msg), "",
         "end Altrios.Serde.Generated", ""]
    return "\n".join(L)


def default_src():
    return os.path.join(os.environ.get("VERIF_REPO", "/repo"), "rust", "altrios-core", "src")


def regen(root=ROOT, src_dir=None, quiet=True):
    """entry point for cfg/C17.py PROP['pre']: rewrites lean/Generated/SerdeSchema.lean from the
    working tree.  A scanner failure is not an exception: a stub table with `scanOk := false` is
    written instead (the proofs then do not build and ./check reports it)."""
    src_dir = src_dir or default_src()
    out = os.path.join(root, "lean", "Generated", "SerdeSchema.lean")
    os.makedirs(os.path.dirname(out), exist_ok=True)
    err = None
    try:
        table, customs = scan(src_dir)
        txt = to_lean(table, customs, src_dir)
    except ScanError as e:
        err = str(e)
        table, customs = {}, {}
        txt = stub_lean(src_dir, err)
    if not os.path.exists(out) or open(out).read() != txt:
        with open(out, "w") as f:
            f.write(txt)
    jp = os.path.join(os.environ.get("VERIF_WORK", os.path.join(root, "work")), "serde_schema.json")
    try:
        os.makedirs(os.path.dirname(jp), exist_ok=True)
        json.dump({"summary": summary(table), "error": err, "customs": sorted(customs), "types": table}, open(jp, "w"), indent=1)
    except OSError:
        pass
    if err:
        print("scan_serde: FAILED: " + err)
    elif not quiet:
        print("scan_serde:", json.dumps(summary(table)))
    if err:
        raise ScanError(err) if os.environ.get("SCAN_SERDE_STRICT") else None
    return table, customs


def main():
    args = sys.argv[1:]
    src = default_src()
    show = False
    i = 0
    while i < len(args):
        if args[i] == "--src":
            src = args[i + 1]
            i += 1
        elif args[i] == "--print":
            show = True
        i += 1
    r = regen(ROOT, src, quiet=False)
    if r is None:
        sys.exit(2)
    table, customs = r
    if show:
        for name in sorted(table):
            r = table[name]
            print(f"{r['kind']:7} {name}  [{r['file']}:{r['line']}]")
            for f in r["fields"]:
                extra = []
                if f["key"] != f["name"]:
                    extra.append("key=" + f["key"])
                if f["skip"]:
                    extra.append("SKIP")
                if f["skip_if"] != "never":
                    extra.append("skipIf=" + f["skip_if"])
                if f["default"][0] != "none":
                    extra.append("default=" + ":".join(f["default"]))
                if f["de_with"]:
                    extra.append("de_with=" + f["de_with"])
                print(f"          .{f['name']}: {lean_ty(f['ty'])} {' '.join(extra)}")
            for v in r["variants"]:
                print(f"          | {v['name']} {lean_ty(v['ty'])}")
        print("custom codecs:", sorted(customs))


if __name__ == "__main__":
    main()
