#!/usr/bin/env python3
"""
train_kernels_selftest.py [--keep] [--only N,N,...] [--jobs J]

Self-test of the TRANSLATOR tie of the train layer (scan/translate_train_kernels.py + lean/Proofs/TrainKernels.lean).

For the unchanged tree and for a list of small mutations it
  1. copies /repo's altrios-core sources to a scratch tree /tmp/trkern-<n>/ (NEVER edits /repo),
  2. applies the mutation there (exactly one textual occurrence is required, unless the mutation says `all`),
  3. runs the translator on the scratch tree (VERIF_REPO-style root) into a scratch Generated/TrainKernels.lean,
  4. compiles that file to a scratch .olean and checks lean/Proofs/TrainKernels.lean against it
     (LEAN_PATH overlay: the shared lake build directory is not touched, so this can run next to other builds),
and prints one table row per case: translator exit status, Lean verdict, the theorems that no longer check.

Expected: row 0 (unchanged) passes; every SEMANTIC mutation fails (translator refuses loudly, or an equality
proof breaks); every HARMLESS rewrite (renamed local, reordered independent statements, added comment, a new
local, an equivalent simplification) still passes.

Python 3 standard library only.
"""
import os
import re
import shutil
import subprocess
import sys
import time
from concurrent.futures import ThreadPoolExecutor

ROOT = os.path.dirname(os.path.dirname(os.path.abspath(__file__)))
LEAN = os.path.join(ROOT, "lean")
REPO = os.environ.get("VERIF_REPO", "/repo")
SRC = "rust/altrios-core/src/"
TR = SRC + "train/"
SS = TR + "set_speed_train_sim.rs"
SL = TR + "speed_limit_train_sim.rs"
STRAP = TR + "resistance/method/strap.rs"
FB = TR + "friction_brakes.rs"
TS = TR + "train_state.rs"

# (label, kind, file, old, new[, "all"])     kind: semantic | harmless
MUTANTS = [
    ("unchanged tree", "none", None, None, None),
    # ---- resistance
    ("davis_b: drop `* state.speed`", "semantic", TR + "resistance/kind/davis_b.rs",
     "self.davis_b * state.speed * state.weight_static", "self.davis_b * state.weight_static"),
    ("aerodynamic: speed squared -> speed", "semantic", TR + "resistance/kind/aerodynamic.rs",
     "self.cd_area * uc::rho_air() * state.speed * state.speed", "self.cd_area * uc::rho_air() * state.speed"),
    ("update_res: rolling resistance computed BEFORE the weight is set (statement order)", "semantic", STRAP,
     "        state.res_bearing = self.bearing.calc_res();\n        state.res_rolling = self.rolling.calc_res(state);\n",
     "        state.res_bearing = self.bearing.calc_res();\n"),
    ("update_res: grade_back read at the FRONT index (defect d1872ce again)", "semantic", STRAP,
     "state.grade_back = self.grade.res_coeff_back(path_tpc.grades());",
     "state.grade_back = self.grade.res_coeff_front(path_tpc.grades());"),
    ("update_res: curve resistance looked up in the GRADE table", "semantic", STRAP,
     "self.curve.calc_res(path_tpc.curves(), state, dir)?", "self.curve.calc_res(path_tpc.grades(), state, dir)?"),
    ("res_net: drop `+ self.res_curve`", "semantic", TS,
     "            + self.res_grade\n            + self.res_curve\n", "            + self.res_grade\n"),
    ("mass_compound: rotational mass -> freight mass", "semantic", TS,
     "            + self.mass_rot)", "            + self.mass_freight)"),
    ("uc.rs: ACC_GRAV changed (constant no longer that of the driver)", "semantic", SRC + "uc.rs",
     "9.801_548_494_963_14", "9.81"),
    # ---- friction brake
    ("fric brake: `.min(force_max)` -> `.max(force_max)`", "semantic", FB,
     "* dt).min(self.force_max);", "* dt).max(self.force_max);"),
    ("fric brake: operands of `/` swapped", "semantic", FB,
     "self.force_max / self.ramp_up_time * dt", "self.ramp_up_time / self.force_max * dt"),
    ("fric brake: an early `return Ok(())` (outside the subset)", "semantic", FB,
     "        // maybe check parameter values here and propagate any errors\n",
     "        if dt < si::Time::ZERO { return Ok(()); }\n"),
    # ---- set-speed simulation
    ("ss required pwr: `ensure!(pwr_pos_max >= 0)` removed", "semantic", SS,
     "        ensure!(\n            pwr_pos_max >= si::Power::ZERO,\n            format_dbg!(pwr_pos_max >= si::Power::ZERO)\n        );\n\n"
     "        // res for resistance", "        // res for resistance"),
    ("ss required pwr: `energy_whl_out_neg -=` -> `+=`", "semantic", SS,
     "self.state.energy_whl_out_neg -= self.state.pwr_whl_out * dt;", "self.state.energy_whl_out_neg += self.state.pwr_whl_out * dt;"),
    ("ss required pwr: branch `>=` -> `>`", "semantic", SS,
     "if self.state.pwr_whl_out >= 0. * uc::W {", "if self.state.pwr_whl_out > 0. * uc::W {"),
    ("ss required pwr: constant 2.0 -> 4.0 in the kinetic-energy term", "semantic", SS,
     "/ (2.0 * self.speed_trace.dt(self.state.i))", "/ (4.0 * self.speed_trace.dt(self.state.i))"),
    ("ss required pwr: clip order `.max(-neg).min(pos)` -> `.min(pos).max(-neg)`", "semantic", SS,
     "self.state.pwr_whl_out.max(-pwr_neg_max).min(pwr_pos_max);", "self.state.pwr_whl_out.min(pwr_pos_max).max(-pwr_neg_max);"),
    ("ss solve_step: train energy integrated over the PREVIOUS dt (seeded C11 mutant)", "semantic", SS,
     "self.solve_required_pwr(self.speed_trace.dt(self.state.i))?;", "self.solve_required_pwr(self.state.dt)?;"),
    ("ss solve_step: rear position no longer updated (defect ca9fd5c again)", "semantic", SS,
     "        self.state.offset_back = self.state.offset - self.state.length;\n        // I'm not too familiar", "        // I'm not too familiar"),
    ("ss solve_step: position advanced by the END speed instead of the mean", "semantic", SS,
     "self.state.offset += self.speed_trace.mean(self.state.i) * self.state.dt;",
     "self.state.offset += self.speed_trace.speed[self.state.i] * self.state.dt;"),
    ("ss solve_step: negative-speed check of the previous sample removed (defect f3961ec again)", "semantic", SS,
     "        ensure!(\n            self.speed_trace.speed[self.state.i - 1] >= si::Velocity::ZERO,\n"
     "            format_dbg!(self.speed_trace.speed[self.state.i - 1] >= si::Velocity::ZERO)\n        );\n", ""),
    ("SpeedTrace::mean: previous sample replaced by the current one", "semantic", SS,
     "0.5 * (self.speed[i] + self.speed[i - 1])", "0.5 * (self.speed[i] + self.speed[i])"),
    # ---- speed-limited simulation
    ("sl required pwr: `f_applied_target.max(` -> `.min(`", "semantic", SL,
     "            f_applied_target.max(-self.fric_brake.state.force_max_curr - f_max_consist_regen_dyn),",
     "            f_applied_target.min(-self.fric_brake.state.force_max_curr - f_max_consist_regen_dyn),"),
    ("sl required pwr: 4.0 -> 2.0 under the square root", "semantic", SL,
     "+ 4.0 * time_per_mass * pwr_pos_max)", "+ 2.0 * time_per_mass * pwr_pos_max)"),
    ("sl required pwr: `if f_applied >= 0` -> `>`", "semantic", SL,
     "let f_consist = if f_applied >= si::Force::ZERO {", "let f_consist = if f_applied > si::Force::ZERO {"),
    ("sl required pwr: 0.1 mph -> 0.2 mph (literal without a name)", "semantic", SL,
     "if self.state.speed < uc::MPH * 0.1 && f_pos_max <= res_net {", "if self.state.speed < uc::MPH * 0.2 && f_pos_max <= res_net {"),
    ("sl required pwr: friction-brake limit no longer refreshed", "semantic", SL,
     "        self.fric_brake.set_cur_force_max_out(self.state.dt)?;\n", ""),
    ("sl required pwr: rear position no longer updated", "semantic", SL,
     "        self.state.offset_back = self.state.offset - self.state.length;\n", ""),
    ("sl required pwr: the snap to the target speed removed", "semantic", SL,
     "        if utils::almost_eq_uom(&self.state.speed, &speed_target, None) {\n            self.state.speed = speed_target;\n        }\n", ""),
    ("sl required pwr: tolerance 1e-7 -> 1e-6 in the positive-power check (literal without a name)", "semantic", SL,
     "utils::almost_le_uom(&self.state.pwr_whl_out, &pwr_pos_max, Some(1.0e-7)),\n            format!(\"{}\\nPower wheel out is larger than max positive",
     "utils::almost_le_uom(&self.state.pwr_whl_out, &pwr_pos_max, Some(1.0e-6)),\n            format!(\"{}\\nPower wheel out is larger than max positive"),
    ("sl solve_step: required power solved BEFORE the resistance is updated (call order)", "semantic", SL,
     "        self.train_res\n            .update_res(&mut self.state, &self.path_tpc, &Dir::Fwd)?;\n        // solve the required power\n        self.solve_required_pwr()?;\n",
     "        self.solve_required_pwr()?;\n        self.train_res\n            .update_res(&mut self.state, &self.path_tpc, &Dir::Fwd)?;\n"),
    ("sl solve_step: consist asked with the trace-less constant dt = 1 s", "semantic", SL,
     "            self.state.pwr_whl_out,\n            self.state.dt,\n            Some(true),",
     "            self.state.pwr_whl_out,\n            uc::S,\n            Some(true),"),
    ("get_scaling_factor: operands of `/` swapped", "semantic", SL,
     "Some(val) => 365.25 / val as f64,", "Some(val) => val as f64 / 365.25,"),
    ("walk_internal: `&&` -> `||` in the loop condition", "semantic", SL,
     "            || (self.state.offset < self.path_tpc.offset_end()\n                && self.state.speed != si::Velocity::ZERO)\n        {",
     "            || (self.state.offset < self.path_tpc.offset_end()\n                || self.state.speed != si::Velocity::ZERO)\n        {"),
    # the check after `self.step()?` in the loop of walk_internal (fix c76dec1; part "loop-ensure")
    ("walk_internal: stopped-short check no longer asks for a zero TARGET speed (dropped conjunct)", "semantic", SL,
     "                    && self.state.speed_target == si::Velocity::ZERO\n", ""),
    ("walk_internal: stopped-short check `offset < end - 1000 ft` -> `<=`", "semantic", SL,
     "&& self.state.offset < self.path_tpc.offset_end() - 1000.0 * uc::FT),",
     "&& self.state.offset <= self.path_tpc.offset_end() - 1000.0 * uc::FT),"),
    ("walk_internal: stopped-short check reads the speed AFTER the step twice (`speed_prev` -> `self.state.speed`)",
     "semantic", SL, "!(speed_prev == si::Velocity::ZERO", "!(self.state.speed == si::Velocity::ZERO"),
    ("walk_internal: `speed_prev` is the previous TARGET speed", "semantic", SL,
     "let speed_prev = self.state.speed;", "let speed_prev = self.state.speed_target;"),
    ("walk_internal: `speed_prev` read AFTER the step (statement order)", "semantic", SL,
     "            let speed_prev = self.state.speed;\n            self.step()?;\n",
     "            self.step()?;\n            let speed_prev = self.state.speed;\n"),
    ("walk_internal: stopped-short check negated once more (`!(` dropped)", "semantic", SL,
     "                !(speed_prev == si::Velocity::ZERO", "                (speed_prev == si::Velocity::ZERO"),
    ("walk_internal: the stopped-short check removed (defect c76dec1 again: the loop never ends)", "semantic", SL,
     "            ensure!(\n                !(speed_prev == si::Velocity::ZERO\n                    && self.state.speed == si::Velocity::ZERO\n"
     "                    && self.state.speed_target == si::Velocity::ZERO\n"
     "                    && self.state.offset < self.path_tpc.offset_end() - 1000.0 * uc::FT),\n"
     "                \"{}\\nTrain {} has stopped at offset {:?}, short of the end of its path at {:?}, and its target speed is zero: "
     "it cannot reach its destination\",\n                format_dbg!(),\n                self.train_id,\n"
     "                self.state.offset,\n                self.path_tpc.offset_end()\n            );\n", ""),
    ("utils::almost_le: `1.0 + epsilon` -> `1.0 - epsilon`", "semantic", SRC + "utils/mod.rs",
     "val1 < val2 * (1.0 + epsilon) || val1 < val2 + epsilon", "val1 < val2 * (1.0 - epsilon) || val1 < val2 + epsilon"),
    # ---- harmless rewrites: must still build
    ("harmless: ss required pwr: local `pwr_neg_max` renamed", "harmless", SS, "pwr_neg_max", "brake_cap", "all"),
    ("harmless: sl required pwr: two independent assignments reordered", "harmless", SL,
     "        self.state.speed_limit = speed_limit;\n        self.state.speed_target = speed_target;\n",
     "        self.state.speed_target = speed_target;\n        self.state.speed_limit = speed_limit;\n"),
    ("harmless: ss required pwr: two independent lets reordered", "harmless", SS,
     "        let pwr_neg_max = self.loco_con.state.pwr_dyn_brake_max.max(si::Power::ZERO);\n\n"
     "        // not sure why we have these checks if the max function worked earlier.\n",
     "        // not sure why we have these checks if the max function worked earlier.\n"),
    ("harmless: update_res: a comment added", "harmless", STRAP,
     "        state.res_bearing = self.bearing.calc_res();\n",
     "        // bearing resistance does not depend on the state\n        state.res_bearing = self.bearing.calc_res();\n"),
    ("harmless: fric brake: a new local for the ramp rate", "harmless", FB,
     "        self.state.force_max_curr =\n            (self.state.force + self.force_max / self.ramp_up_time * dt).min(self.force_max);",
     "        let ramp = self.force_max / self.ramp_up_time;\n        self.state.force_max_curr = (self.state.force + ramp * dt).min(self.force_max);"),
    ("harmless: walk_internal: local `speed_prev` renamed", "harmless", SL, "speed_prev", "v_before", "all"),
    ("harmless: walk_internal: a further (unused) local in front of the step", "harmless", SL,
     "            let speed_prev = self.state.speed;\n",
     "            let offset_prev = self.state.offset;\n            let speed_prev = self.state.speed;\n"),
    ("harmless: sl required pwr: the inner `if` with two equal branches replaced by its value", "harmless", SL,
     "            if res_net + self.fric_brake.state.force_max_curr + f_max_dyn_fast >= si::Force::ZERO {\n"
     "                self.loco_con.state.pwr_dyn_brake_max / v_max // self.state.speed\n"
     "            } else {\n                f_max_dyn_fast\n            }\n",
     "            f_max_dyn_fast\n"),
]
# the reordered-lets case needs the moved line inserted before the first let: done as a two-step edit
TWO_STEP = {
    "harmless: ss required pwr: two independent lets reordered":
        ("        let pwr_pos_max =\n            self.loco_con.state.pwr_out_max.min(si::Power::ZERO.max(\n",
         "        let pwr_neg_max = self.loco_con.state.pwr_dyn_brake_max.max(si::Power::ZERO);\n"
         "        let pwr_pos_max =\n            self.loco_con.state.pwr_out_max.min(si::Power::ZERO.max(\n"),
    "update_res: rolling resistance computed BEFORE the weight is set (statement order)":
        ("        state.weight_static = state\n",
         "        state.res_rolling = self.rolling.calc_res(state);\n        state.weight_static = state\n"),
}


def sh(cmd, cwd=None, env=None, timeout=1800):
    t0 = time.time()
    p = subprocess.run(cmd, cwd=cwd, env=env, stdout=subprocess.PIPE, stderr=subprocess.STDOUT, text=True,
                       timeout=timeout)
    return p.returncode, p.stdout, time.time() - t0


def theorem_at(lines, ln):
    i = min(ln, len(lines)) - 1
    if lines[i].lstrip().startswith("/--"):
        for j in range(i, min(i + 6, len(lines))):
            m = re.match(r"\s*(?:theorem|example)\s+(\w+)?", lines[j])
            if m:
                return m.group(1) or "example@%d" % (j + 1)
    for i in range(min(ln, len(lines)) - 1, -1, -1):
        m = re.match(r"\s*(?:theorem|example|def)\s+(\w+)?", lines[i])
        if m and re.match(r"\s*(theorem|example)", lines[i]):
            return m.group(1) or "example@%d" % (i + 1)
    return "?"


def apply_edit(path, old, new, every, n):
    txt = open(path, encoding="utf-8").read()
    cnt = txt.count(old)
    if (cnt != 1 and not every) or cnt == 0:
        raise SystemExit("mutant %d: pattern occurs %d times in %s" % (n, cnt, path))
    open(path, "w", encoding="utf-8").write(txt.replace(old, new))


def run_case(n, mut, lean_path, proof, proof_lines, keep):
    label, kind, rel, old, new = mut[:5]
    every = len(mut) > 5 and mut[5] == "all"
    scratch = "/tmp/trkern-%d" % n
    shutil.rmtree(scratch, ignore_errors=True)
    shutil.copytree(os.path.join(REPO, SRC), os.path.join(scratch, SRC))
    if rel:
        apply_edit(os.path.join(scratch, rel), old, new, every, n)
        if label in TWO_STEP:
            apply_edit(os.path.join(scratch, rel), TWO_STEP[label][0], TWO_STEP[label][1], False, n)
    gen = os.path.join(scratch, "lean", "Generated", "TrainKernels.lean")
    rc_t, out_t, dt_t = sh([sys.executable, os.path.join(ROOT, "scan", "translate_train_kernels.py"), scratch, gen,
                            "--lean-root", LEAN])
    terr = [l for l in out_t.splitlines() if "ERROR" in l or "FATAL" in l]
    olean = os.path.join(scratch, "olean", "Generated")
    os.makedirs(olean, exist_ok=True)
    env0 = dict(os.environ)
    env0["LEAN_PATH"] = lean_path
    rc_g, out_g, dt_g = sh(["lean", "--root=" + os.path.join(scratch, "lean"), "-o",
                            os.path.join(olean, "TrainKernels.olean"), gen], cwd=LEAN, env=env0)
    if rc_g != 0:
        verdict, failing, dt_p = "generated file does not compile", [out_g.strip().splitlines()[0][:160]], 0.0
    else:
        env = dict(os.environ)
        env["LEAN_PATH"] = os.path.join(scratch, "olean") + ":" + lean_path
        rc_p, out_p, dt_p = sh(["lean", proof], cwd=LEAN, env=env)
        errs = [int(m.group(1)) for m in re.finditer(r"TrainKernels\.lean:(\d+):\d+: error", out_p)]
        failing = sorted({theorem_at(proof_lines, e) for e in errs})
        verdict = "PASS" if rc_p == 0 and not errs else "FAIL"
    if kind == "semantic":
        ok = verdict != "PASS"
    else:                                   # unchanged tree and harmless rewrites must still build
        ok = verdict == "PASS" and rc_t == 0
    if not keep:
        shutil.rmtree(scratch, ignore_errors=True)
    return (n, label, kind, rc_t, terr, verdict, failing, dt_t + dt_g + dt_p, ok)


def main():
    args = sys.argv[1:]
    keep = "--keep" in args
    only = None
    jobs = 6
    if "--only" in args:
        only = {int(x) for x in args[args.index("--only") + 1].split(",")}
    if "--jobs" in args:
        jobs = int(args[args.index("--jobs") + 1])
    rc, out, _ = sh(["lake", "build", "Proofs.Lemmas.KernelTac", "Altrios.Train"], cwd=LEAN)
    if rc != 0:
        print("cannot build the imports of Proofs/TrainKernels.lean:\n" + out)
        sys.exit(2)
    rc, lp, _ = sh(["lake", "env", "printenv", "LEAN_PATH"], cwd=LEAN)
    if rc != 0:
        print("cannot get LEAN_PATH from lake:\n" + lp)
        sys.exit(2)
    lean_path = lp.strip().splitlines()[-1]
    proof = os.path.join(LEAN, "Proofs", "TrainKernels.lean")
    proof_lines = open(proof, encoding="utf-8").read().splitlines()
    todo = [(n, m) for n, m in enumerate(MUTANTS) if only is None or n in only]
    bad = 0
    with ThreadPoolExecutor(max_workers=jobs) as ex:
        futs = [ex.submit(run_case, n, m, lean_path, proof, proof_lines, keep) for n, m in todo]
        for f in futs:
            n, label, kind, rc_t, terr, verdict, failing, dt, ok = f.result()
            if not ok:
                bad += 1
            print("%2d | %-9s | translator exit %d | proofs %-4s | %5.1fs | %s%s\n     %s%s" % (
                n, kind, rc_t, verdict, dt, label, "" if ok else "      <<< NOT AS EXPECTED",
                ("translator: " + terr[0][:230] + "\n     ") if terr else "",
                ("no longer checks: " + ", ".join(failing)) if failing else "all equalities check"))
            sys.stdout.flush()
    n_sem = sum(1 for _, m in todo if m[1] == "semantic")
    n_har = sum(1 for _, m in todo if m[1] == "harmless")
    print("\n%d cases (%d semantic, %d harmless), %d not as expected" % (len(todo), n_sem, n_har, bad))
    sys.exit(1 if bad else 0)


if __name__ == "__main__":
    main()
