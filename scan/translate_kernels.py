#!/usr/bin/env python3
"""
translate_kernels.py <repo-root> <out.lean> [--lean-root <dir>]

TRANSLATOR for the straight-line powertrain kernels of altrios-core (DESIGN.md §10, last bullet).

Reads the CURRENT Rust text of a fixed list of functions (table FUNCS below) and writes one Lean
definition per function into `Generated/Kernels.lean` (namespace `Altrios.Gen`), over the SAME record
types, the same `Res` monad and the same number-polymorphic `variable` line as the hand-written model
`Altrios/Powertrain.lean`.  `Proofs/Kernels.lean` then proves, over an arbitrary linearly ordered field,
that every regenerated definition EQUALS the hand-written one, so that every C01/C08/C09/C10 theorem
about the model is a theorem about what the code says now.

The reader is a tokenizer plus a STRICT recursive-descent parser for a small Rust subset:

  statements   let [mut] x = e;      let state = &mut self.state;   (alias only)
               self.state.f = e;  state.f = e;  self.f = e;   compound  +=  -=
               ensure!(cond, ...);   (message arguments are skipped, never read)
               if c { ... } [else { ... }]          (statement; `else if` chains)
               self.<translated method>()?;
               Ok(())  /  a tail expression (value-returning free functions)
  expressions  + - * /, unary -, & / &mut (reference = the value), comparisons, && || & !,
               if c { e } else { e },  [e, e, ...],  Some(e), None,
               .min(e) .max(e) .abs() .is_none() .is_empty() .unwrap() .unwrap_or(e)
               .unwrap_or_default() .is_sign_positive() .get::<si::UNIT>()
               uc::X * e  /  e * uc::X      only for unit constants whose value in uc.rs is 1.0
               si::<Quantity>::ZERO, numeric literals that have a name in `PT.Consts`, 0, 1
               interp1d(&x, &xs, &ys, false)?      interp3d(&p, &grid, &vals).unwrap()
               utils::almost_{eq,le,ge,gt,lt}[_uom](&a, &b, Some(e)|None)
               two iterator idioms, matched literally (see `idiom_*`).

ANYTHING else is an error naming file:line: the translator never guesses.  A function that cannot be
translated is emitted as a stub that always panics ("translator: ..."), `translatorOk` becomes `false`,
and the exit status is 1: the driver still links, and `Proofs/Kernels.lean` does not build.

Translation rules (the trusted part; they are listed again in the header of the generated file):
  * a `&mut self` method is `self ↦ Res self`; an assignment is a record update shadowing `self`;
    statement order is kept; `e?` / `.unwrap()` become monadic binds placed immediately before the
    statement they occur in (refused inside `if`-expression branches and to the right of `&&`/`||`).
  * `a > b` ↦ `b < a`, `a >= b` ↦ `b ≤ a`; `==`/`!=` on numbers ↦ `eqb`/`neb`; as an `if` condition a
    comparison is a `Prop`, elsewhere `decide (…)`.
  * Rust `snake_case` ↦ Lean `camelCase` by rule, exceptions in FIELD_EXC; every field must exist in the
    corresponding structure of Altrios/Powertrain.lean (read from that file).
  * `uom` quantities are their SI base-unit value: arithmetic on quantities is arithmetic on values,
    `.get::<si::{ratio,watt,joule}>()` is the identity, `si::X::ZERO` is 0,
    `energy_capacity.get::<si::watt_hour>()` is the explicit model parameter `capWh`.
  * `x_uom(&a, &b, eps)` is `x(a, b, eps)` (checked against the macro text in macros.rs).

Python 3 standard library only.
"""
import hashlib
import os
import re
import sys

PT_DIR = "rust/altrios-core/src/consist/locomotive/powertrain/"
SRC = "rust/altrios-core/src/"


class TErr(Exception):
    """outside the subset / table mismatch; message carries file:line"""


# =============================================================================== configuration

# Rust struct -> (Lean structure of the model, Lean structure of its `state`)
STRUCTS = {
    "FuelConverter": ("FC", "FCState"),
    "Generator": ("Gen", "GenState"),
    "ElectricDrivetrain": ("Edrv", "EdrvState"),
    "ReversibleEnergyStorage": ("RES", "ResState"),
}

# name mapping exceptions: (Lean structure, rust field) -> Lean field   (rule otherwise: snake -> camel)
FIELD_EXC = {
    ("FC", "pwr_out_frac_interp"): "fracInterp",
    ("Gen", "pwr_out_frac_interp"): "fracInterp",
    ("Gen", "pwr_in_frac_interp"): "inFracInterp",
    ("Edrv", "pwr_out_frac_interp"): "fracInterp",
    ("Edrv", "pwr_in_frac_interp"): "inFracInterp",
    ("RES", "eta_interp_values"): "etaVals",
    ("ResState", "temperature_celsius"): "temperature",
}
# `[Vec<f64>; 3]` grid field -> the three list fields of the model
GRID_FIELDS = {("RES", "eta_interp_grid"): ("gridT", "gridSoc", "gridC")}
# `.get::<si::UNIT>()` that is NOT an identity but an explicit parameter of the model
GET_SPECIAL = {("RES", "energy_capacity", "watt_hour"): "capWh"}
# SI base (coherent) units: `.get::<si::U>()` returns the stored value
GET_IDENTITY = {"ratio", "watt", "joule"}
# numeric literals with a name in `PT.Consts` (value -> field); 0 and 1 are `0` and `1`
CONST_FIELDS = {"tol": 1e-3, "eps": 1e-8, "c005": 0.05, "ten": 10.0}

# Rust parameter types -> kind
TYPE_KIND = {
    "si::Power": "num", "si::Time": "num", "si::Energy": "num", "si::Velocity": "num", "si::Ratio": "num",
    "si::PowerRate": "num", "f64": "num", "bool": "bool",
    "Option<si::Power>": "opt", "Option<si::Energy>": "opt", "Option<f64>": "opt",
}
KIND_LEAN = {"num": "α", "bool": "Bool", "opt": "Option α"}

# The functions. `tags`: the `err` tag of the n-th `ensure!` of the function (ordinal = textual order);
# they are the strings chosen by the hand-written model, so that equality is exact (tags marked
# VACUOUS belong to `ensure!(eta >= 0 || eta <= 1)`, which the model drops: the proof shows it never fires).
FUNCS = [
    dict(lean="almostEq", params=["num", "num", "opt"], ret="bool", file=SRC + "utils/mod.rs", impl=None, fn="almost_eq", tags=[]),
    dict(lean="almostGt", params=["num", "num", "opt"], ret="bool", file=SRC + "utils/mod.rs", impl=None, fn="almost_gt", tags=[]),
    dict(lean="almostLt", params=["num", "num", "opt"], ret="bool", file=SRC + "utils/mod.rs", impl=None, fn="almost_lt", tags=[]),
    dict(lean="almostGe", params=["num", "num", "opt"], ret="bool", file=SRC + "utils/mod.rs", impl=None, fn="almost_ge", tags=[]),
    dict(lean="almostLe", params=["num", "num", "opt"], ret="bool", file=SRC + "utils/mod.rs", impl=None, fn="almost_le", tags=[]),
    dict(lean="minSpeed", params=["num", "num"], ret="num", file=SRC + "track/link/speed/speed_limit.rs", impl=None, fn="min_speed", tags=[]),
    dict(lean="fcSetCurMax", params=["num"], ret="self", file=PT_DIR + "fuel_converter.rs", impl="FuelConverter", fn="set_cur_pwr_out_max",
         tags=["dt"]),
    dict(lean="fcSolve", params=["num", "num", "bool", "bool"], ret="self", file=PT_DIR + "fuel_converter.rs", impl="FuelConverter", fn="solve_energy_consumption",
         tags=["fc-static-max", "fc-transient-max", "fc-neg", "fc-eta-range(VACUOUS)", "fc-off-nonzero",
               "fc-energy-loss-neg"]),
    dict(lean="genSetInFrac", params=[], ret="self", file=PT_DIR + "generator.rs", impl="Generator", fn="set_pwr_in_frac_interp",
         tags=["in-frac-monotone"]),
    dict(lean="genReq", params=["num", "num", "num"], ret="self", file=PT_DIR + "generator.rs", impl="Generator", fn="set_pwr_in_req",
         tags=["gen-neg", "gen-max", "gen-eta-range(VACUOUS)"]),
    dict(lean="genSetCurMax", params=["num", "opt"], ret="self", file=PT_DIR + "generator.rs", impl="Generator", fn="set_cur_pwr_max_out", tags=[]),
    dict(lean="edrvSetInFrac", params=[], ret="self", file=PT_DIR + "electric_drivetrain.rs", impl="ElectricDrivetrain",
         fn="set_pwr_in_frac_interp", tags=["in-frac-monotone"]),
    dict(lean="edrvSetRegenMax", params=["num"], ret="self", file=PT_DIR + "electric_drivetrain.rs", impl="ElectricDrivetrain",
         fn="set_cur_pwr_regen_max", tags=["edrv-regen-neg"]),
    dict(lean="edrvReq", params=["num", "num"], ret="self", file=PT_DIR + "electric_drivetrain.rs", impl="ElectricDrivetrain", fn="set_pwr_in_req",
         tags=["edrv-max", "edrv-eta-range(VACUOUS)", "edrv-dyn-neg"]),
    dict(lean="edrvSetCurMax", params=["num", "opt"], ret="self", file=PT_DIR + "electric_drivetrain.rs", impl="ElectricDrivetrain",
         fn="set_cur_pwr_max_out", tags=["edrv-aux-not-none"]),
    dict(lean="resSetCurMax", params=["num", "opt", "opt"], ret="self", file=PT_DIR + "reversible_energy_storage.rs", impl="ReversibleEnergyStorage",
         fn="set_cur_pwr_out_max", tags=[]),
    dict(lean="resSolve", params=["num", "num", "num"], ret="self", file=PT_DIR + "reversible_energy_storage.rs", impl="ReversibleEnergyStorage",
         fn="solve_energy_consumption",
         tags=["res-over-max-soc", "res-below-min-soc", "res-static-disch", "res-transient-disch",
               "res-static-charge", "res-transient-charge", "res-eta-range(VACUOUS)"]),
]
# `self.<method>()?` callees that are themselves translated (must precede their callers in FUNCS)
SELF_METHODS = {("Generator", "set_pwr_in_frac_interp"): "genSetInFrac",
                ("ElectricDrivetrain", "set_pwr_in_frac_interp"): "edrvSetInFrac"}
# free functions callable from kernels: rust name -> generated Lean name  (x and x_uom)
CMP_FNS = {"almost_eq": "almostEq", "almost_gt": "almostGt", "almost_lt": "almostLt",
           "almost_ge": "almostGe", "almost_le": "almostLe"}

# Lean identifiers a Rust local / parameter must not turn into
RESERVED = {"k", "self", "mn", "mx", "absv", "eqb", "neb", "ensure", "interp1d", "interp3d", "pure", "some", "none",
            "unwrapOpt", "unwrapRes", "fun", "do", "let", "if", "then", "else", "match", "with", "at", "from",
            "have", "show", "by", "in", "end", "open", "def", "theorem", "where", "decide"}

ASSUMPTIONS = []   # recorded in the generated header (e.g. is_sign_positive)


def note(s):
    if s not in ASSUMPTIONS:
        ASSUMPTIONS.append(s)


# =============================================================================== tokenizer

TOK_RE = re.compile(r"""
   (?P<ws>\s+)
 | (?P<lc>//[^\n]*)
 | (?P<num>\d[\d_]*(?:\.(?![.\w])|\.\d[\d_]*)?(?:[eE][+-]?\d[\d_]*)?(?:_?(?:f64|f32|usize|isize|[iu](?:8|16|32|64)))?)
 | (?P<id>[A-Za-z_]\w*)
 | (?P<str>"(?:[^"\\]|\\.)*")
 | (?P<chr>'(?:[^'\\]|\\.)')
 | (?P<life>'[A-Za-z_]\w*)
 | (?P<op>::|->|=>|==|!=|<=|>=|&&|\|\||\+=|-=|\*=|/=|\.\.=|\.\.|[-+*/%=<>!&|^.,;:\#?@$~(){}\[\]])
""", re.X | re.S)


class Tok:
    __slots__ = ("k", "t", "line", "a", "b")

    def __init__(self, k, t, line, a, b):
        self.k, self.t, self.line, self.a, self.b = k, t, line, a, b

    def __repr__(self):
        return "%s:%r@%d" % (self.k, self.t, self.line)


def tokenize(src, rel):
    toks = []
    i, n, line = 0, len(src), 1
    while i < n:
        if src.startswith("/*", i):
            depth, j = 1, i + 2
            while j < n and depth:
                if src.startswith("/*", j):
                    depth, j = depth + 1, j + 2
                elif src.startswith("*/", j):
                    depth, j = depth - 1, j + 2
                else:
                    j += 1
            if depth:
                raise TErr("%s:%d: unterminated block comment" % (rel, line))
            line += src.count("\n", i, j)
            i = j
            continue
        m = re.match(r'b?r(#*)"', src[i:i + 12])
        if m and (i == 0 or not (src[i - 1].isalnum() or src[i - 1] == "_")):
            close = '"' + m.group(1)
            j = src.find(close, i + m.end())
            if j < 0:
                raise TErr("%s:%d: unterminated raw string" % (rel, line))
            j += len(close)
            toks.append(Tok("str", src[i:j], line, i, j))
            line += src.count("\n", i, j)
            i = j
            continue
        m = TOK_RE.match(src, i)
        if not m:
            raise TErr("%s:%d: cannot tokenize %r" % (rel, line, src[i:i + 20]))
        k = m.lastgroup
        if k not in ("ws", "lc"):
            toks.append(Tok(k, m.group(), line, i, m.end()))
        line += src.count("\n", i, m.end())
        i = m.end()
    return toks


CLOSE = {"(": ")", "[": "]", "{": "}"}


def match_close(toks, i, rel):
    """index of the token closing the bracket toks[i]"""
    o = toks[i].t
    c = CLOSE[o]
    depth = 0
    for j in range(i, len(toks)):
        if toks[j].k == "op":
            if toks[j].t == o:
                depth += 1
            elif toks[j].t == c:
                depth -= 1
                if depth == 0:
                    return j
    raise TErr("%s:%d: unbalanced %r" % (rel, toks[i].line, o))


# =============================================================================== items

class Fn:
    def __init__(self, rel, impl, name, toks, lo, hi, body_lo, src):
        self.rel, self.impl, self.name = rel, impl, name
        self.toks = toks            # the whole file's tokens
        self.lo, self.hi = lo, hi   # token index of `fn` .. closing brace
        self.body_lo = body_lo      # token index of the opening brace of the body
        self.line_lo, self.line_hi = toks[lo].line, toks[hi].line
        self.text = src[toks[lo].a:toks[hi].b]
        self.hash = hashlib.sha256(self.text.encode("utf-8")).hexdigest()[:16]


class SourceFile:
    """top-level items of one file: functions per impl type, free functions, f64 consts"""

    def __init__(self, root, rel):
        self.rel = rel
        p = os.path.join(root, rel)
        if not os.path.exists(p):
            raise TErr("%s: source file missing" % rel)
        self.src = open(p, encoding="utf-8").read()
        self.toks = tokenize(self.src, rel)
        self.fns = []       # Fn
        self.consts = {}    # NAME -> literal text (top-level `const NAME: f64 = LIT;`)
        self.scan_items(0, len(self.toks), None)

    def scan_items(self, i, end, impl):
        T = self.toks
        while i < end:
            t = T[i]
            if t.k == "op" and t.t == "#":                       # attribute: # [ ... ]  or  # ! [ ... ]
                j = i + 1
                if j < end and T[j].t == "!":
                    j += 1
                if j < end and T[j].t == "[":
                    i = match_close(T, j, self.rel) + 1
                    continue
                raise TErr("%s:%d: stray '#'" % (self.rel, t.line))
            if t.k == "id" and t.t == "impl" and impl is None:
                j = i + 1
                hdr = []
                while T[j].t != "{":
                    hdr.append(T[j])
                    j += 1
                names = [x.t for x in hdr]
                if "for" in names:
                    ty = names[names.index("for") + 1]
                else:
                    # skip generics `impl<T> Name`
                    k = 0
                    if names and names[0] == "<":
                        depth = 0
                        for k, x in enumerate(names):
                            depth += (x == "<") - (x == ">")
                            if depth == 0:
                                break
                        k += 1
                    ty = names[k]
                c = match_close(T, j, self.rel)
                self.scan_items(j + 1, c, ty)
                i = c + 1
                continue
            if t.k == "id" and t.t in ("mod", "macro_rules", "struct", "enum", "trait", "union") and impl is None:
                # skip to the end of the item: `;` or a braced body
                j = i + 1
                while j < end and T[j].t not in ("{", ";"):
                    j = match_close(T, j, self.rel) + 1 if T[j].t in ("(", "[") else j + 1
                i = (match_close(T, j, self.rel) + 1) if (j < end and T[j].t == "{") else j + 1
                continue
            if t.k == "id" and t.t == "const" and impl is None and i + 6 < end and T[i + 1].k == "id" \
                    and T[i + 2].t == ":" and T[i + 3].t == "f64" and T[i + 4].t == "=" and T[i + 5].k == "num" \
                    and T[i + 6].t == ";":
                self.consts[T[i + 1].t] = T[i + 5].t
                i += 7
                continue
            if t.k == "id" and t.t == "fn":
                name = T[i + 1].t
                j = i + 2
                while T[j].t != "(":                              # generics
                    j += 1
                j = match_close(T, j, self.rel) + 1
                while T[j].t not in ("{", ";"):
                    j += 1
                if T[j].t == ";":
                    i = j + 1
                    continue
                c = match_close(T, j, self.rel)
                self.fns.append(Fn(self.rel, impl, name, T, i, c, j, self.src))
                i = c + 1
                continue
            if t.k == "op" and t.t in ("{", "(", "["):
                i = match_close(T, i, self.rel) + 1
                continue
            i += 1

    def find(self, impl, name):
        hits = [f for f in self.fns if f.impl == impl and f.name == name]
        what = (impl + "::" if impl else "") + name
        if not hits:
            raise TErr("%s: function %s not found" % (self.rel, what))
        if len(hits) > 1:
            raise TErr("%s:%d: function %s defined %d times" % (self.rel, hits[1].line_lo, what, len(hits)))
        return hits[0]


# =============================================================================== AST + parser

class N:
    """AST node: kind + attributes"""

    def __init__(self, kind, line, **kw):
        self.kind, self.line = kind, line
        self.__dict__.update(kw)

    def __repr__(self):
        return "N(%s,%s)" % (self.kind, {k: v for k, v in self.__dict__.items() if k not in ("kind", "line")})


BIN_LEVELS = [["||"], ["&&"], ["==", "!=", "<", ">", "<=", ">="], ["&"], ["+", "-"], ["*", "/"]]
ASSIGN_OPS = ("=", "+=", "-=")


class Parser:
    def __init__(self, fn):
        self.fn = fn
        self.T = fn.toks
        self.rel = fn.rel
        self.i = fn.lo
        self.end = fn.hi
        self.in_cond = False

    # ---- helpers
    def err(self, msg, tok=None):
        tok = tok or self.T[min(self.i, self.end)]
        raise TErr("%s:%d: %s (at %r)" % (self.rel, tok.line, msg, tok.t))

    def peek(self, d=0):
        return self.T[self.i + d]

    def at(self, t, d=0):
        x = self.T[self.i + d]
        return x.k in ("op", "id") and x.t == t

    def eat(self, t):
        if not self.at(t):
            self.err("expected %r" % t)
        self.i += 1
        return self.T[self.i - 1]

    def ident(self):
        x = self.peek()
        if x.k != "id":
            self.err("expected an identifier")
        self.i += 1
        return x.t

    # ---- signature:  fn name ( params ) [-> ret] {
    def signature(self):
        self.eat("fn")
        name = self.ident()
        if self.at("<"):
            self.err("generic functions are outside the subset")
        self.eat("(")
        params = []
        has_self = False
        while not self.at(")"):
            if self.at("&") and self.at("mut", 1) and self.at("self", 2):
                self.i += 3
                has_self = True
            elif self.at("self") or (self.at("&") and self.at("self", 1)):
                self.err("only `&mut self` receivers are supported")
            else:
                if self.at("mut"):
                    self.err("`mut` parameters are outside the subset")
                pn = self.ident()
                self.eat(":")
                ty = []
                depth = 0
                while not (depth == 0 and (self.at(",") or self.at(")"))):
                    x = self.peek()
                    depth += (x.t in ("<", "(", "[")) - (x.t in (">", ")", "]"))
                    ty.append(x.t)
                    self.i += 1
                params.append((pn, "".join(ty), self.T[self.i - 1].line))
            if self.at(","):
                self.i += 1
        self.eat(")")
        ret = []
        if self.at("->"):
            self.i += 1
            while not self.at("{"):
                ret.append(self.peek().t)
                self.i += 1
        if self.i != self.fn.body_lo:
            self.err("could not delimit the signature")
        return name, has_self, params, "".join(ret)

    # ---- blocks and statements
    def block(self):
        """{ stmt* [tail] }  ->  N(block, stmts, tail)"""
        lb = self.eat("{")
        saved_cond, self.in_cond = self.in_cond, False
        stmts, tail = [], None
        while not self.at("}"):
            if tail is not None:
                self.err("statement after a tail expression")
            x = self.peek()
            extra = self.stmt_extra()
            if extra is not None:
                if extra[0] == "tail":
                    tail = extra[1]
                elif extra[1] is not None:
                    stmts.append(extra[1])
                continue
            if x.k == "op" and x.t == "#":
                self.err("attributes inside a function body are outside the subset")
            if self.at("let"):
                stmts.append(self.let_stmt())
            elif self.at("ensure") and self.at("!", 1):
                stmts.append(self.ensure_stmt())
            elif self.at("if"):
                e = self.if_expr()
                if self.at("}"):
                    tail = e             # decided by the translator: statement or value
                else:
                    if self.at(";"):
                        self.i += 1
                    stmts.append(N("ifstmt", e.line, node=e))
            elif x.k == "id" and x.t in ("return", "while", "for", "loop", "match", "break", "continue", "bail",
                                         "unsafe", "fn", "use", "const", "static", "struct", "impl"):
                self.err("`%s` is outside the subset" % x.t)
            else:
                e = self.expr()
                if self.peek().k == "op" and self.peek().t in ASSIGN_OPS:
                    op = self.peek().t
                    self.i += 1
                    rhs = self.expr()
                    self.eat(";")
                    stmts.append(N("assign", e.line, place=e, op=op, rhs=rhs))
                elif self.peek().k == "op" and self.peek().t in ("*=", "/="):
                    self.err("compound assignment %s is outside the subset" % self.peek().t)
                elif self.at(";"):
                    self.i += 1
                    stmts.append(N("exprstmt", e.line, e=e))
                elif self.at("}"):
                    tail = e
                else:
                    self.err("expected ';' or '}' after an expression")
        self.eat("}")
        self.in_cond = saved_cond
        return N("block", lb.line, stmts=stmts, tail=tail)

    def stmt_extra(self):
        """hook for subclasses (translate_train_kernels.py): further statement forms at the start of a
        statement; returns None (not handled), ("stmt", node | None) or ("tail", node).  The powertrain
        subset has none."""
        return None

    def method_args(self, name):
        """hook for subclasses: the argument list of the method call `.name(…)`"""
        return self.args()

    def let_stmt(self):
        l = self.eat("let")
        if self.at("mut"):
            self.i += 1
        x = self.peek()
        if x.k != "id":
            self.err("only `let [mut] <ident> = …` is supported (no patterns)")
        name = self.ident()
        if self.at(":"):
            self.err("type ascription on `let` is outside the subset")
        self.eat("=")
        e = self.expr()
        self.eat(";")
        return N("let", l.line, name=name, e=e)

    def ensure_stmt(self):
        l = self.eat("ensure")
        self.eat("!")
        if not self.at("("):
            self.err("ensure! with non-parenthesis delimiter")
        close = match_close(self.T, self.i, self.rel)
        self.i += 1
        cond = self.expr()
        if self.at(","):
            self.i = close            # message arguments: skipped without reading
        if self.i != close:
            self.err("could not delimit the condition of ensure!")
        self.eat(")")
        self.eat(";")
        return N("ensure", l.line, cond=cond)

    def if_expr(self):
        l = self.eat("if")
        if self.at("let"):
            self.err("`if let` is outside the subset")
        saved = self.in_cond
        self.in_cond = True           # Rust: no struct literal in the condition of `if`
        cond = self.expr()
        self.in_cond = saved
        then = self.block()
        els = None
        if self.at("else"):
            self.i += 1
            if self.at("if"):
                e = self.if_expr()
                els = N("block", e.line, stmts=[], tail=e)
            else:
                els = self.block()
        return N("if", l.line, cond=cond, then=then, els=els)

    # ---- expressions
    def expr(self, level=0):
        if level == len(BIN_LEVELS):
            return self.unary()
        ops = BIN_LEVELS[level]
        lhs = self.expr(level + 1)
        while self.peek().k == "op" and self.peek().t in ops:
            # `&` followed by `&`… is lexed as `&&`; a lone binary `&` is the non-short-circuit and
            op = self.peek()
            self.i += 1
            rhs = self.expr(level + 1)
            if level == 2 and lhs.kind == "bin" and lhs.op in BIN_LEVELS[2] and not getattr(lhs, "paren", False):
                self.err("chained comparison", op)
            lhs = N("bin", op.line, op=op.t, l=lhs, r=rhs)
        if self.peek().k == "op" and self.peek().t in ("|", "^", "%") or self.at("as"):
            self.err("operator outside the subset")
        return lhs

    def unary(self):
        x = self.peek()
        if x.k == "op" and x.t == "-":
            self.i += 1
            return N("neg", x.line, e=self.unary())
        if x.k == "op" and x.t == "!":
            self.i += 1
            return N("not", x.line, e=self.unary())
        if x.k == "op" and x.t == "&":
            self.i += 1
            mut = False
            if self.at("mut"):
                self.i += 1
                mut = True
            return N("ref", x.line, e=self.unary(), mut=mut)
        if x.k == "op" and x.t == "&&":
            self.err("double reference is outside the subset")
        if x.k == "op" and x.t == "*":
            self.err("dereference is outside the subset")
        return self.postfix()

    def turbofish(self):
        """::< path >  -> list of path segments"""
        self.eat("::")
        self.eat("<")
        segs = [self.ident()]
        while self.at("::"):
            self.i += 1
            segs.append(self.ident())
        self.eat(">")
        return segs

    def args(self):
        self.eat("(")
        a = []
        while not self.at(")"):
            a.append(self.expr())
            if self.at(","):
                self.i += 1
            elif not self.at(")"):
                self.err("expected ',' or ')' in an argument list")
        self.eat(")")
        return a

    def postfix(self):
        e = self.primary()
        while True:
            x = self.peek()
            if x.k == "op" and x.t == ".":
                self.i += 1
                if self.peek().k == "num":
                    self.err("tuple field access is outside the subset")
                name = self.ident()
                tf = None
                if self.at("::"):
                    tf = self.turbofish()
                if self.at("("):
                    e = N("method", x.line, recv=e, name=name, tf=tf, args=self.method_args(name))
                else:
                    if tf is not None:
                        self.err("turbofish without a call")
                    e = N("field", x.line, recv=e, name=name)
            elif x.k == "op" and x.t == "?":
                self.i += 1
                e = N("try", x.line, e=e)
            elif x.k == "op" and x.t == "[":
                self.i += 1
                idx = self.expr()
                self.eat("]")
                e = N("index", x.line, recv=e, idx=idx)
            elif x.k == "op" and x.t == "(":
                self.err("call of a non-path expression")
            else:
                return e

    def primary(self):
        x = self.peek()
        if x.k == "num":
            self.i += 1
            return N("num", x.line, text=x.t)
        if x.k == "op" and x.t == "(":
            self.i += 1
            if self.at(")"):
                self.i += 1
                return N("unit", x.line)
            saved, self.in_cond = self.in_cond, False
            e = self.expr()
            self.in_cond = saved
            if self.at(","):
                self.err("tuples are outside the subset")
            self.eat(")")
            e.paren = True
            return e
        if x.k == "op" and x.t == "[":
            self.i += 1
            el = []
            while not self.at("]"):
                el.append(self.expr())
                if self.at(","):
                    self.i += 1
                elif self.at(";"):
                    self.err("array repeat expressions are outside the subset")
                elif not self.at("]"):
                    self.err("expected ',' or ']' in an array literal")
            self.eat("]")
            return N("array", x.line, el=el)
        if x.k == "op" and x.t in ("|", "||"):
            return self.closure()
        if x.k == "id" and x.t == "if":
            return self.if_expr()
        if x.k == "id":
            if x.t in ("match", "loop", "while", "for", "unsafe", "move", "return", "break", "continue", "async"):
                self.err("`%s` is outside the subset" % x.t)
            segs = [self.ident()]
            while self.at("::"):
                if self.at("<", 1):
                    self.err("generic path arguments are outside the subset")
                self.i += 1
                segs.append(self.ident())
            if self.at("!"):
                self.err("macro `%s!` is outside the subset" % "::".join(segs), x)
            if self.at("{") and segs[-1][:1].isupper() and not self.in_cond:
                self.err("struct literals are outside the subset")
            if self.at("("):
                return N("call", x.line, path=segs, args=self.args())
            return N("path", x.line, segs=segs)
        self.err("expression outside the subset")

    def closure(self):
        b = self.eat("|") if self.at("|") else self.err("closure without parameters")
        params = []
        if self.at("("):
            self.i += 1
            tup = [self.ident()]
            while self.at(","):
                self.i += 1
                tup.append(self.ident())
            self.eat(")")
            params.append(tup)
        else:
            params.append(self.ident())
        self.eat("|")
        if self.at("{"):
            self.err("closure with a block body is outside the subset")
        body = self.expr()
        return N("closure", b.line, params=params, body=body)


# =============================================================================== the model's structures

def camel(s):
    parts = s.split("_")
    if any(p == "" for p in parts):
        raise TErr("cannot camel-case %r" % s)
    return parts[0] + "".join(p[:1].upper() + p[1:] for p in parts[1:])


def read_model(lean_root):
    """fields (name -> kind) of every `structure X (α : Type) where` of Altrios/Powertrain.lean,
    its `variable` line, and the numeric values of the driver's `kF`"""
    p = os.path.join(lean_root, "Altrios", "Powertrain.lean")
    txt = open(p, encoding="utf-8").read()
    structs = {}
    for m in re.finditer(r"^structure (\w+) \(α : Type\) where\n((?:  .*\n)+)", txt, re.M):
        body = re.sub(r"/--.*?-/", "", m.group(2), flags=re.S)
        fields = {}
        for l in body.splitlines():
            l = l.split("--")[0].strip()
            if not l or l.startswith("deriving"):
                continue
            fm = re.fullmatch(r"(\w+) : (.+)", l)
            if not fm:
                raise TErr("Altrios/Powertrain.lean: cannot read field line %r of structure %s" % (l, m.group(1)))
            ty = fm.group(2).strip()
            kind = {"α": "num", "Bool": "bool", "List α": "list", "Option α": "opt",
                    "List (List (List α))": "list3"}.get(ty)
            if kind is None:
                sm = re.fullmatch(r"(\w+) α", ty)
                kind = "struct:" + sm.group(1) if sm else "other"
            fields[fm.group(1)] = kind
        structs[m.group(1)] = fields
    vm = re.search(r"^variable \{α : Type\}.*\n(?:  .*\n)*", txt, re.M)
    if not vm:
        raise TErr("Altrios/Powertrain.lean: `variable {α : Type} …` line not found")
    var_line = vm.group(0).rstrip("\n")
    # the Float instantiation of the named literals
    d = os.path.join(lean_root, "Driver", "OpsPT.lean")
    km = re.search(r"def kF : Consts Float := \{([^}]*)\}", open(d, encoding="utf-8").read())
    if not km:
        raise TErr("Driver/OpsPT.lean: `def kF : Consts Float := {…}` not found")
    kf = {}
    for part in km.group(1).split(","):
        a, b = part.split(":=")
        kf[a.strip()] = float(b.strip())
    for f, v in CONST_FIELDS.items():
        if f not in structs.get("Consts", {}) or kf.get(f) != v:
            raise TErr("PT.Consts.%s: the translator's literal table says %r, Driver/OpsPT.lean kF says %r"
                       % (f, v, kf.get(f)))
    return structs, var_line


def read_uc(root):
    """unit constants of uc.rs: NAME -> float value (literal third macro argument)"""
    rel = SRC + "uc.rs"
    toks = tokenize(open(os.path.join(root, rel), encoding="utf-8").read(), rel)
    out = {}
    i = 0
    while i < len(toks):
        if toks[i].t == "unit_const" and toks[i + 1].t == "!" and toks[i + 2].t == "(" and toks[i - 1].t != "macro_rules":
            c = match_close(toks, i + 2, rel)
            inner = toks[i + 3:c]
            # skip doc attributes  # [ ... ]  (doc comments are comments already)
            parts, cur, depth = [], [], 0
            for t in inner:
                depth += (t.t in "([{" and t.k == "op") - (t.t in ")]}" and t.k == "op")
                if t.t == "," and depth == 0:
                    parts.append(cur)
                    cur = []
                else:
                    cur.append(t)
            parts.append(cur)
            if len(parts) == 3 and len(parts[0]) == 1 and parts[0][0].k == "id":
                val = parts[2]
                if len(val) == 1 and val[0].k == "num":
                    out[parts[0][0].t] = lit_value(val[0].t)
                else:
                    out[parts[0][0].t] = None      # not a plain literal (e.g. f64::NAN)
            i = c + 1
        else:
            i += 1
    if "R" not in out or "W" not in out:
        raise TErr("%s: unit constants R / W not found" % rel)
    return out


def check_uom_macro(root):
    """`x_uom(a, b, eps)` must be `x(a.value, b.value, eps)` (macro make_uom_cmp_fn in macros.rs)"""
    rel = SRC + "macros.rs"
    toks = tokenize(open(os.path.join(root, rel), encoding="utf-8").read(), rel)
    ts = [t.t for t in toks]
    want = ["$", "name", "(", "val1", ".", "value", ",", "val2", ".", "value", ",", "epsilon", ")"]
    for i in range(len(ts)):
        if ts[i:i + 3] == ["macro_rules", "!", "make_uom_cmp_fn"]:
            c = match_close(toks, i + 3, rel)
            body = ts[i + 3:c]
            hits = [j for j in range(len(body)) if body[j:j + len(want)] == want]
            # the body of the generated fn must be exactly that call
            if len(hits) == 1 and body[hits[0] - 1] == "{" and body[hits[0] + len(want)] == "}":
                return
            raise TErr("%s:%d: make_uom_cmp_fn no longer forwards `$name(val1.value, val2.value, epsilon)`"
                       % (rel, toks[i].line))
    raise TErr("%s: macro make_uom_cmp_fn not found" % rel)


def lit_value(text):
    t = re.sub(r"_?(f64|f32)$", "", text).replace("_", "")
    return float(t)


# =============================================================================== translation

def bracketed(t):
    if not t or t[0] not in "([" or t[-1] != CLOSE[t[0]]:
        return False
    depth = 0
    for i, ch in enumerate(t):
        depth += (ch in "([") - (ch in ")]")
        if depth == 0 and i < len(t) - 1:
            return False
    return True


def atom(t):
    if re.fullmatch(r"[\w.']+", t) or bracketed(t):
        return t
    return "(" + t + ")"


class Ctx:
    """translation of one function"""

    def __init__(self, cfg, fn, sf, model, uc, consts_file):
        self.cfg, self.fn, self.sf = cfg, fn, sf
        self.structs = model
        self.uc = uc
        self.rel = fn.rel
        self.impl = fn.impl
        self.S, self.SS = STRUCTS[fn.impl] if fn.impl else (None, None)
        self.locals = {}       # rust name -> (lean text, kind)
        self.arrays = {}       # rust name -> [lean names] for `let p = [a, b, c];`
        self.aliases = set()   # names bound by `let state = &mut self.state;`
        self.lines = []
        self.tmp = 0
        self.ensures = 0
        self.can_hoist = True
        self.monadic = True
        self.indent = 2

    def err(self, node, msg):
        raise TErr("%s:%d: %s" % (self.rel, node.line, msg))

    def emit(self, s):
        self.lines.append(" " * self.indent + s)

    def fresh(self, base):
        while True:
            self.tmp += 1
            n = "%s%d" % (base, self.tmp)
            if not any(v[0] == n for v in self.locals.values()):
                return n

    def hoist(self, node, lean_action, base="r"):
        if not self.monadic:
            self.err(node, "fallible operation in a function that does not return Result")
        if not self.can_hoist:
            self.err(node, "`?`/`.unwrap()` inside a conditionally evaluated sub-expression is outside the subset")
        n = self.fresh(base)
        self.emit("let %s ← %s" % (n, lean_action))
        return n

    def local_name(self, node, rust):
        n = camel(rust)
        if n in RESERVED:
            self.err(node, "local name %r maps to the reserved Lean identifier %r" % (rust, n))
        return n

    # ---- literals / constants
    def literal(self, node, text):
        if re.search(r"(usize|isize|[iu]\d+|f32)$", text):
            self.err(node, "literal %s has a non-f64 suffix" % text)
        v = lit_value(text)
        if v == 0.0:
            return "0"
        if v == 1.0:
            return "1"
        for f, fv in CONST_FIELDS.items():
            if v == fv:
                return "k." + f
        self.err(node, "numeric literal %s has no name in PT.Consts (known: 0, 1, %s)"
                 % (text, ", ".join("%s=%r" % kv for kv in CONST_FIELDS.items())))

    def is_unit_const(self, e):
        return e.kind == "path" and len(e.segs) == 2 and e.segs[0] == "uc"

    def unit_const_is_one(self, e):
        name = e.segs[1]
        if name not in self.uc:
            self.err(e, "unit constant uc::%s not found in uc.rs" % name)
        if self.uc[name] != 1.0:
            self.err(e, "unit constant uc::%s has value %r in uc.rs: only constants equal to 1.0 are translated"
                     % (name, self.uc[name]))
        return True

    # ---- fields
    def field_of(self, node, struct, rust):
        """Lean field name + kind of `rust` in Lean structure `struct`"""
        lean = FIELD_EXC.get((struct, rust)) or camel(rust)
        fields = self.structs.get(struct)
        if fields is None:
            self.err(node, "the model has no structure %s" % struct)
        if lean not in fields:
            self.err(node, "field `%s` (Lean `%s`) is not a field of the model structure PT.%s"
                     % (rust, lean, struct))
        return lean, fields[lean]

    def is_self(self, e):
        return e.kind == "path" and e.segs == ["self"]

    def is_state(self, e):
        return (e.kind == "field" and self.is_self(e.recv) and e.name == "state") or \
               (e.kind == "path" and len(e.segs) == 1 and e.segs[0] in self.aliases)

    def place(self, e):
        """(is_state, lean field, kind) of an assignable place, or error"""
        if self.S is None:
            self.err(e, "assignment in a free function")
        if e.kind == "field" and self.is_state(e.recv):
            f, k = self.field_of(e, self.SS, e.name)
            return True, f, k
        if e.kind == "field" and self.is_self(e.recv):
            if (self.S, e.name) in GRID_FIELDS or e.name == "state":
                self.err(e, "assignment to `self.%s` is outside the subset" % e.name)
            f, k = self.field_of(e, self.S, e.name)
            return False, f, k
        self.err(e, "assignment target outside the subset (only self.f, self.state.f, state.f)")

    # ---- expressions: returns (lean text, kind)
    def expr(self, e):
        k = e.kind
        if k == "num":
            return self.literal(e, e.text), "num"
        if k == "path":
            return self.path(e)
        if k == "neg":
            t, kd = self.expr(e.e)
            self.want(e, kd, "num", "operand of unary -")
            return "-" + atom(t), "num"
        if k == "ref":
            if e.mut:
                self.err(e, "`&mut` expression outside `let state = &mut self.state;`")
            return self.expr(e.e)
        if k == "bin":
            if e.op in ("||", "&&", "&", "==", "!=", "<", ">", "<=", ">="):
                return self.logic(e, "bool"), "bool"
            return self.arith(e)
        if k == "not":
            return self.logic(e, "bool"), "bool"
        if k == "field":
            return self.field(e)
        if k == "method":
            return self.method(e)
        if k == "call":
            return self.call(e)
        if k == "try":
            t, kd = self.expr(e.e)
            if kd != "res":
                self.err(e, "`?` applied to something that is not a translated fallible call")
            return self.hoist(e, t), "num"
        if k == "array":
            el = []
            for x in e.el:
                t, kd = self.expr(x)
                self.want(x, kd, "num", "array element")
                el.append(t)
            return "[" + ", ".join(el) + "]", "list"
        if k == "if":
            return self.if_value(e)
        if k == "unit":
            return "()", "unit"
        self.err(e, "expression form `%s` outside the subset" % k)

    def want(self, node, got, want, what):
        if got != want:
            self.err(node, "%s has kind %s, expected %s" % (what, got, want))

    def path(self, e):
        s = e.segs
        if len(s) == 1:
            n = s[0]
            if n in self.locals:
                return self.locals[n]
            if n in self.arrays:
                self.err(e, "array `%s` used other than as the point of interp3d" % n)
            if n == "None":
                return "none", "opt"
            if n in self.sf.consts:
                return self.literal(e, self.sf.consts[n]), "num"
            self.err(e, "unknown name `%s`" % n)
        if len(s) == 3 and s[0] == "si" and s[2] == "ZERO":
            return "0", "num"
        if self.is_unit_const(e):
            self.err(e, "unit constant uc::%s outside a product" % s[1])
        self.err(e, "path `%s` outside the subset" % "::".join(s))

    def arith(self, e):
        # products with a unit constant whose value is 1.0 are the other factor
        if e.op == "*":
            for a, b in ((e.l, e.r), (e.r, e.l)):
                if self.is_unit_const(a) and self.unit_const_is_one(a):
                    t, kd = self.expr(b)
                    self.want(b, kd, "num", "factor of a unit constant")
                    return t, "num"
        l, lk = self.expr(e.l)
        r, rk = self.expr(e.r)
        self.want(e.l, lk, "num", "left operand of " + e.op)
        self.want(e.r, rk, "num", "right operand of " + e.op)
        return "%s %s %s" % (atom(l), e.op, atom(r)), "num"

    def field(self, e):
        if self.S is None:
            self.err(e, "field access in a free function")
        if self.is_state(e):
            self.err(e, "`self.state` used as a value")
        if self.is_state(e.recv):
            f, k = self.field_of(e, self.SS, e.name)
            return "self.state." + f, k
        if self.is_self(e.recv):
            if (self.S, e.name) in GRID_FIELDS:
                return " ".join("self." + g for g in GRID_FIELDS[(self.S, e.name)]), "grid3"
            f, k = self.field_of(e, self.S, e.name)
            return "self." + f, k
        self.err(e, "field access outside the subset (only self.f, self.state.f, state.f)")

    def call(self, e):
        p = "::".join(e.path)
        if p == "Some":
            if len(e.args) != 1:
                self.err(e, "Some(..) with %d arguments" % len(e.args))
            t, kd = self.expr(e.args[0])
            self.want(e, kd, "num", "argument of Some")
            return "some " + atom(t), "opt"
        if p == "interp1d":
            if len(e.args) != 4 or not (e.args[3].kind == "path" and e.args[3].segs == ["false"]):
                self.err(e, "interp1d must be called as interp1d(&x, &xs, &ys, false)")
            x, xk = self.expr(e.args[0])
            xs, xsk = self.expr(e.args[1])
            ys, ysk = self.expr(e.args[2])
            self.want(e.args[0], xk, "num", "interp1d x")
            self.want(e.args[1], xsk, "list", "interp1d x_data")
            self.want(e.args[2], ysk, "list", "interp1d y_data")
            return "interp1d %s %s %s" % (atom(x), atom(xs), atom(ys)), "res"
        if p == "interp3d":
            if len(e.args) != 3:
                self.err(e, "interp3d must be called as interp3d(&point, &grid, &values)")
            pt = e.args[0].e if e.args[0].kind == "ref" else e.args[0]
            if pt.kind == "path" and len(pt.segs) == 1 and pt.segs[0] in self.arrays:
                comps = self.arrays[pt.segs[0]]
            else:
                self.err(e, "the point of interp3d must be a local bound to an array literal")
            if len(comps) != 3:
                self.err(e, "the point of interp3d has %d components" % len(comps))
            g, gk = self.expr(e.args[1])
            v, vk = self.expr(e.args[2])
            self.want(e.args[1], gk, "grid3", "interp3d grid")
            self.want(e.args[2], vk, "list3", "interp3d values")
            return "interp3d %s %s %s" % (" ".join(comps), g, atom(v)), "res"
        m = re.fullmatch(r"(?:utils::)?(almost_(?:eq|gt|lt|ge|le))(_uom)?", p)
        if m:
            if len(e.args) != 3:
                self.err(e, "%s with %d arguments" % (p, len(e.args)))
            a, ak = self.expr(e.args[0])
            b, bk = self.expr(e.args[1])
            c, ck = self.expr(e.args[2])
            self.want(e.args[0], ak, "num", p + " val1")
            self.want(e.args[1], bk, "num", p + " val2")
            self.want(e.args[2], ck, "opt", p + " epsilon")
            return "%s k %s %s %s" % (CMP_FNS[m.group(1)], atom(a), atom(b), atom(c)), "bool"
        self.err(e, "call of `%s` is outside the subset" % p)

    def method(self, e):
        n = e.name
        # --- iterator idioms, matched literally
        r = self.idiom_zip_map(e) or self.idiom_windows(e)
        if r:
            return r
        if n in ("iter", "zip", "map", "collect", "windows", "all", "any", "sum", "fold", "len", "clone", "into",
                 "powf", "powi", "sqrt", "mul_add", "signum", "floor", "ceil", "round", "clamp", "copysign"):
            self.err(e, "method `.%s()` is outside the subset" % n)
        # --- self.<translated method>()
        if self.is_self(e.recv):
            key = (self.impl, n)
            if key in SELF_METHODS and not e.args and e.tf is None:
                return SELF_METHODS[key] + " k self", "res_self"
            self.err(e, "method call self.%s(..) is outside the subset" % n)
        if n == "get":
            if e.args or not e.tf or len(e.tf) != 2 or e.tf[0] != "si":
                self.err(e, "only `.get::<si::UNIT>()` is supported")
            unit = e.tf[1]
            inner = e.recv
            if inner.kind == "field" and self.is_self(inner.recv) and (self.S, inner.name, unit) in GET_SPECIAL:
                f = GET_SPECIAL[(self.S, inner.name, unit)]
                self.field_of(e, self.S, inner.name)          # the quantity itself must still exist
                if f not in self.structs[self.S]:
                    self.err(e, "the model has no parameter %s" % f)
                return "self." + f, "num"
            if unit not in GET_IDENTITY:
                self.err(e, "`.get::<si::%s>()` is a unit conversion, not an identity: outside the subset" % unit)
            t, kd = self.expr(inner)
            self.want(e, kd, "num", "receiver of .get")
            return t, "num"
        if e.tf is not None:
            self.err(e, "turbofish on `.%s` is outside the subset" % n)
        t, kd = self.expr(e.recv)
        if n in ("min", "max"):
            if len(e.args) != 1:
                self.err(e, ".%s with %d arguments" % (n, len(e.args)))
            a, ak = self.expr(e.args[0])
            self.want(e, kd, "num", "receiver of ." + n)
            self.want(e, ak, "num", "argument of ." + n)
            return "%s %s %s" % ("mn" if n == "min" else "mx", atom(t), atom(a)), "num"
        if e.args and n != "unwrap_or":
            self.err(e, "method `.%s` with arguments is outside the subset" % n)
        if n == "abs":
            self.want(e, kd, "num", "receiver of .abs")
            return "absv " + atom(t), "num"
        if n == "is_none":
            self.want(e, kd, "opt", "receiver of .is_none")
            return atom(t) + ".isNone", "bool"
        if n == "is_empty":
            self.want(e, kd, "list", "receiver of .is_empty")
            return atom(t) + ".isEmpty", "bool"
        if n == "is_sign_positive":
            return self.logic(e, "bool"), "bool"
        if n == "unwrap":
            if kd == "opt":
                return self.hoist(e, "unwrapOpt " + atom(t), "u"), "num"
            if kd == "res":
                return self.hoist(e, "unwrapRes " + atom(t), "u"), "num"
            self.err(e, ".unwrap() on kind %s" % kd)
        if n == "unwrap_or":
            if len(e.args) != 1:
                self.err(e, ".unwrap_or with %d arguments" % len(e.args))
            self.want(e, kd, "opt", "receiver of .unwrap_or")
            a, ak = self.expr(e.args[0])
            self.want(e, ak, "num", "argument of .unwrap_or")
            return "%s.getD %s" % (atom(t), atom(a)), "num"
        if n == "unwrap_or_default":
            self.want(e, kd, "opt", "receiver of .unwrap_or_default")
            note("`Option<quantity>::unwrap_or_default()` is `getD 0` (the default of an f64 / uom quantity is 0)")
            return "%s.getD 0" % atom(t), "num"
        self.err(e, "method `.%s()` is outside the subset" % n)

    def idiom_zip_map(self, e):
        """A.iter().zip(B.iter()).map(|(x, y)| BODY).collect()   ↦   List.zipWith (fun x y => BODY) A B"""
        def m(x, name, nargs):
            return x.kind == "method" and x.name == name and len(x.args) == nargs and x.tf is None
        if not m(e, "collect", 0):
            return None
        mp = e.recv
        if not (m(mp, "map", 1) and mp.args[0].kind == "closure"):
            return None
        zp = mp.recv
        if not (m(zp, "zip", 1) and m(zp.args[0], "iter", 0) and m(zp.recv, "iter", 0)):
            return None
        cl = mp.args[0]
        if not (len(cl.params) == 1 and isinstance(cl.params[0], list) and len(cl.params[0]) == 2):
            self.err(cl, "the closure of the zip/map idiom must be |(x, y)| …")
        a, ak = self.expr(zp.recv.recv)
        b, bk = self.expr(zp.args[0].recv)
        self.want(e, ak, "list", "first zipped sequence")
        self.want(e, bk, "list", "second zipped sequence")
        x, y = (self.local_name(cl, p) for p in cl.params[0])
        saved, sh, sm = dict(self.locals), self.can_hoist, self.monadic
        self.locals[cl.params[0][0]] = (x, "num")
        self.locals[cl.params[0][1]] = (y, "num")
        self.can_hoist = False
        body, bk2 = self.expr(cl.body)
        self.locals, self.can_hoist, self.monadic = saved, sh, sm
        self.want(cl, bk2, "num", "body of the zip/map closure")
        return "List.zipWith (fun %s %s => %s) %s %s" % (x, y, body, atom(a), atom(b)), "list"

    def idiom_windows(self, e):
        """A.windows(2).all(|w| w[0] < w[1])   ↦   PT.strictlyIncreasing A"""
        if not (e.kind == "method" and e.name == "all" and e.recv.kind == "method" and e.recv.name == "windows"):
            return None
        w = e.recv
        ok = (len(w.args) == 1 and w.args[0].kind == "num" and w.args[0].text == "2" and len(e.args) == 1
              and e.args[0].kind == "closure")
        if ok:
            cl = e.args[0]
            b = cl.body
            ok = (len(cl.params) == 1 and isinstance(cl.params[0], str) and b.kind == "bin" and b.op == "<"
                  and all(s.kind == "index" and s.recv.kind == "path" and s.recv.segs == [cl.params[0]]
                          and s.idx.kind == "num" and s.idx.text == str(i) for i, s in enumerate((b.l, b.r))))
        if not ok:
            self.err(e, "only the literal idiom `.windows(2).all(|w| w[0] < w[1])` is supported")
        a, ak = self.expr(w.recv)
        self.want(e, ak, "list", "receiver of .windows")
        return "PT.strictlyIncreasing " + atom(a), "bool"

    def if_value(self, e):
        if e.els is None:
            self.err(e, "`if` used as a value without `else`")
        c = self.logic(e.cond, "prop")
        saved = self.can_hoist
        self.can_hoist = False
        vals = []
        for b in (e.then, e.els):
            if b.stmts or b.tail is None:
                self.err(b, "a branch of an `if` expression must be a single expression")
            vals.append(self.expr(b.tail))
        self.can_hoist = saved
        if vals[0][1] != vals[1][1]:
            self.err(e, "branches of `if` have kinds %s / %s" % (vals[0][1], vals[1][1]))
        return "if %s then %s else %s" % (c, vals[0][0], vals[1][0]), vals[0][1]

    # ---- logical expressions: mode 'prop' (if conditions) or 'bool' (ensure!, values)
    def logic(self, e, mode, nested=False):
        k = e.kind
        if k == "bin" and e.op in ("||", "&&", "&"):
            l = self.logic(e.l, mode, True)
            saved = self.can_hoist
            if e.op != "&":
                self.can_hoist = False           # right operand is evaluated conditionally
            r = self.logic(e.r, mode, True)
            self.can_hoist = saved
            if mode == "prop":
                op = "∨" if e.op == "||" else "∧"
            else:
                op = "||" if e.op == "||" else "&&"
            s = "%s %s %s" % (l, op, r)
            return "(" + s + ")" if nested else s
        if k == "bin" and e.op in ("<", ">", "<=", ">="):
            l, lk = self.expr(e.l)
            r, rk = self.expr(e.r)
            self.want(e.l, lk, "num", "left operand of " + e.op)
            self.want(e.r, rk, "num", "right operand of " + e.op)
            if e.op in (">", ">="):
                l, r = r, l
            rel = "<" if e.op in ("<", ">") else "≤"
            s = "%s %s %s" % (atom(l), rel, atom(r))
            if mode == "bool":
                return "decide (%s)" % s
            return "(" + s + ")" if nested else s
        if k == "bin" and e.op in ("==", "!="):
            l, lk = self.expr(e.l)
            r, rk = self.expr(e.r)
            self.want(e.l, lk, "num", "left operand of " + e.op)
            self.want(e.r, rk, "num", "right operand of " + e.op)
            s = "%s %s %s" % ("eqb" if e.op == "==" else "neb", atom(l), atom(r))
            if mode == "prop":
                s += " = true"
            return "(" + s + ")" if nested and mode == "prop" else s
        if k == "not":
            s = self.logic(e.e, mode, True)
            return ("¬ " if mode == "prop" else "!") + s
        if k == "method" and e.name == "is_sign_positive" and not e.args and e.tf is None:
            t, kd = self.expr(e.recv)
            self.want(e, kd, "num", "receiver of .is_sign_positive")
            note("`x.is_sign_positive()` is translated to `0 ≤ x` (differs only at -0.0 and NaN)")
            s = "0 ≤ " + atom(t)
            if mode == "bool":
                return "decide (%s)" % s
            return "(" + s + ")" if nested else s
        t, kd = self.expr(e)
        self.want(e, kd, "bool", "condition")
        if mode == "prop" and nested:
            return "(%s = true)" % t
        return atom(t) if nested else t

    # ---- statements
    def mutates(self, b):
        for s in b.stmts:
            if s.kind == "assign":
                return True
            if s.kind == "exprstmt":
                return True
            if s.kind == "ifstmt" and (self.mutates(s.node.then) or (s.node.els and self.mutates(s.node.els))):
                return True
        if b.tail is not None and b.tail.kind == "if":
            t = b.tail
            if self.mutates(t.then) or (t.els and self.mutates(t.els)):
                return True
        return False

    def stmt(self, s):
        k = s.kind
        if k == "let":
            e = s.e
            if e.kind == "ref" and e.mut:
                if e.e.kind == "field" and self.is_self(e.e.recv) and e.e.name == "state" and self.S:
                    self.aliases.add(s.name)
                    self.locals.pop(s.name, None)
                    return
                self.err(s, "only `let <name> = &mut self.state;` may take a mutable reference")
            if s.name in self.aliases:
                self.err(s, "`%s` is rebound while it aliases self.state" % s.name)
            if e.kind == "array":
                base = self.local_name(s, s.name)
                names = []
                for i, x in enumerate(e.el):
                    t, kd = self.expr(x)
                    self.want(x, kd, "num", "array element")
                    nm = "%s_%d" % (base, i)
                    self.emit("let %s := %s" % (nm, t))
                    names.append(nm)
                self.arrays[s.name] = names
                self.locals.pop(s.name, None)
                return
            t, kd = self.expr(e)
            if kd not in ("num", "bool", "opt", "list"):
                self.err(s, "let-bound value of kind %s is outside the subset" % kd)
            n = self.local_name(s, s.name)
            self.emit("let %s := %s" % (n, t))
            self.locals[s.name] = (n, kd)
            self.arrays.pop(s.name, None)
            return
        if k == "ensure":
            tags = self.cfg["tags"]
            if self.ensures >= len(tags):
                self.err(s, "ensure! number %d of %s, but the tag table of the translator lists only %d"
                         % (self.ensures + 1, self.fn.name, len(tags)))
            if not self.monadic:
                self.err(s, "ensure! in a function that does not return Result")
            c = self.logic(s.cond, "bool")
            self.emit('ensure (%s) "%s"' % (c, tags[self.ensures]))
            self.ensures += 1
            return
        if k == "assign":
            is_state, f, fk = self.place(s.place)
            cur = ("self.state." if is_state else "self.") + f
            t, kd = self.expr(s.rhs)
            if s.op != "=":
                self.want(s, fk, "num", "target of " + s.op)
                self.want(s, kd, "num", "right-hand side of " + s.op)
                t = "%s %s %s" % (cur, s.op[0], atom(t))
            elif kd != fk:
                self.err(s, "assignment of kind %s to field %s of kind %s" % (kd, f, fk))
            if is_state:
                self.emit("let self := { self with state := { self.state with %s := %s } }" % (f, t))
            else:
                self.emit("let self := { self with %s := %s }" % (f, t))
            return
        if k == "exprstmt":
            e = s.e
            if e.kind == "try":
                t, kd = self.expr(e.e)
                if kd == "res_self":
                    if not self.can_hoist:
                        self.err(s, "fallible call in a conditionally evaluated position")
                    self.emit("let self ← " + t)
                    return
            self.err(s, "expression statement outside the subset (only `self.<translated method>()?;`)")
        if k == "ifstmt":
            self.if_stmt(s.node)
            return
        self.err(s, "statement form `%s` outside the subset" % k)

    def scoped_block(self, b, then_pure_self):
        """statements of a branch, at the current indent; locals are scoped to the branch"""
        saved = (dict(self.locals), dict(self.arrays), set(self.aliases))
        for s in b.stmts:
            self.stmt(s)
        if b.tail is not None:
            if b.tail.kind == "if":
                self.if_stmt(b.tail)
            else:
                self.err(b.tail, "a value at the end of a statement block is outside the subset")
        if then_pure_self:
            self.emit("pure self")
        elif not (b.tail is None and b.stmts and b.stmts[-1].kind == "ensure"):
            self.emit("pure ()")          # a branch must end in an action of type `Res Unit`
        self.locals, self.arrays, self.aliases = saved

    def if_stmt(self, e):
        c = self.logic(e.cond, "prop")
        mut = self.mutates(e.then) or (e.els is not None and self.mutates(e.els))
        ind = self.indent
        if not mut:
            self.emit("if %s then" % c)
            self.indent = ind + 2
            self.scoped_block(e.then, False)
            self.indent = ind
            if e.els is not None:
                self.emit("else")
                self.indent = ind + 2
                self.scoped_block(e.els, False)
                self.indent = ind
        else:
            self.emit("let self ← (if %s then do" % c)
            self.indent = ind + 4
            self.scoped_block(e.then, True)
            self.indent = ind
            if e.els is not None:
                self.emit("  else do")
                self.indent = ind + 4
                self.scoped_block(e.els, True)
                self.indent = ind
                self.lines[-1] += ")"
            else:
                self.emit("  else pure self)")


def translate(cfg, root, files, model, uc):
    rel = cfg["file"]
    if rel not in files:
        files[rel] = SourceFile(root, rel)
    sf = files[rel]
    fn = sf.find(cfg["impl"], cfg["fn"])
    p = Parser(fn)
    name, has_self, params, ret = p.signature()
    body = p.block()
    if p.i != fn.hi + 1:
        p.err("trailing tokens after the function body")
    cx = Ctx(cfg, fn, sf, model, uc, None)
    binders = ["(k : PT.Consts α)"]
    if has_self != (cfg["impl"] is not None):
        raise TErr("%s:%d: receiver of %s does not match the translator's table" % (rel, fn.line_lo, name))
    if has_self:
        binders.append("(self : PT.%s α)" % cx.S)
    for pn, ty, line in params:
        if ty not in TYPE_KIND:
            raise TErr("%s:%d: parameter `%s: %s`: type outside the subset" % (rel, line, pn, ty))
        kd = TYPE_KIND[ty]
        ln = camel(pn)
        if ln in RESERVED:
            raise TErr("%s:%d: parameter `%s` maps to the reserved Lean identifier %r" % (rel, line, pn, ln))
        cx.locals[pn] = (ln, kd)
        binders.append("(%s : %s)" % (ln, KIND_LEAN[kd]))
    got = [TYPE_KIND[ty] for _, ty, _ in params]
    if got != cfg["params"]:
        raise TErr("%s:%d: parameters of %s have kinds %s, the translator's table (and the driver ops) expect %s"
                   % (rel, fn.line_lo, name, got, cfg["params"]))
    if has_self:
        if ret != "anyhow::Result<()>":
            raise TErr("%s:%d: %s returns `%s`; only anyhow::Result<()> methods are translated"
                       % (rel, fn.line_lo, name, ret))
        ret_lean = "Res (PT.%s α)" % cx.S
        for s in body.stmts:
            cx.stmt(s)
        t = body.tail
        if t is None or not (t.kind == "call" and t.path == ["Ok"] and len(t.args) == 1 and t.args[0].kind == "unit"):
            raise TErr("%s:%d: %s must end with `Ok(())`" % (rel, fn.line_hi, name))
        cx.emit("pure self")
        head = "def %s %s : %s := do" % (cfg["lean"], " ".join(binders), ret_lean)
    else:
        if ret not in TYPE_KIND or TYPE_KIND[ret] != cfg["ret"]:
            raise TErr("%s:%d: %s returns `%s`: outside the subset" % (rel, fn.line_lo, name, ret))
        cx.monadic = False
        for s in body.stmts:
            if s.kind != "let":
                raise TErr("%s:%d: a value-returning function may contain only `let` statements" % (rel, s.line))
            cx.stmt(s)
        if body.tail is None:
            raise TErr("%s:%d: %s has no tail expression" % (rel, fn.line_hi, name))
        t, kd = cx.expr(body.tail)
        if kd != TYPE_KIND[ret]:
            raise TErr("%s:%d: tail expression of kind %s, declared %s" % (rel, fn.line_hi, kd, ret))
        cx.emit(t)
        head = "def %s %s : %s :=" % (cfg["lean"], " ".join(binders), KIND_LEAN[kd])
    if cx.ensures != len(cfg["tags"]):
        raise TErr("%s:%d: %s has %d ensure!, the tag table of the translator lists %d (%s)"
                   % (rel, fn.line_lo, name, cx.ensures, len(cfg["tags"]), ", ".join(cfg["tags"])))
    return fn, head, cx.lines


def stub(cfg, msg):
    """a definition with the table's signature that always panics (value-returning functions: a fixed
    wrong value), used when the translation failed: the driver still links, the equality proof fails"""
    b = ["(k : PT.Consts α)"]
    if cfg["impl"]:
        b.append("(self : PT.%s α)" % STRUCTS[cfg["impl"]][0])
    b += ["(a%d : %s)" % (i, KIND_LEAN[kd]) for i, kd in enumerate(cfg["params"])]
    if cfg["ret"] == "self":
        return ["def %s %s : Res (PT.%s α) := .panic %s"
                % (cfg["lean"], " ".join(b), STRUCTS[cfg["impl"]][0], lean_str("translator: " + msg))]
    return ["-- translator: " + msg.replace("\n", " "),
            "def %s %s : %s := %s" % (cfg["lean"], " ".join(b), KIND_LEAN[cfg["ret"]],
                                      "false" if cfg["ret"] == "bool" else "0")]


def lean_str(s):
    return '"' + s.replace("\\", "\\\\").replace('"', '\\"').replace("\n", " ") + '"'


HEADER = '''import Altrios.Powertrain
/-
  GENERATED by /verif/scan/translate_kernels.py from the Rust sources of altrios-core — DO NOT EDIT.
  Regenerated on every check; `Proofs/Kernels.lean` proves each definition equal to the hand-written
  model (`Altrios/Powertrain.lean`, `Altrios/Num.lean`, `Altrios/SpeedPoints.lean`).

  Reading rules (the translator's trusted base):
    * `&mut self` method = `self ↦ Res self`; an assignment is a record update that shadows `self`;
      statement order is the order of the Rust text; `e?` / `.unwrap()` are binds placed just before
      the statement they occur in; `ensure!(c, …)` is `ensure c tag`, the tag taken from the translator's
      table by ordinal (messages are never read).
    * `a > b` is written `b < a`, `a >= b` is `b ≤ a`; `==` on numbers is `eqb`.
    * uom quantities are their SI base-unit values; `uc::X * e` is `e` for the unit constants whose value
      in uc.rs is 1.0 (%(ones)s); `.get::<si::{ratio,watt,joule}>()` is the identity; `si::X::ZERO` is 0;
      `energy_capacity.get::<si::watt_hour>()` is the model parameter `capWh`;
      `x_uom(&a, &b, e)` is `x(a, b, e)` (macro text checked).
    * numeric literals: 0, 1 and the named `PT.Consts` (%(consts)s).
    * snake_case ↦ camelCase, exceptions: %(exc)s.
%(assume)s-/
set_option linter.unusedVariables false
namespace Altrios.Gen
open Altrios Altrios.Interp

/-- `Option::unwrap` -/
def unwrapOpt {β : Type} : Option β → Res β
  | some v => .ok v
  | none => .panic "unwrap"

/-- `Result::unwrap` -/
def unwrapRes {β : Type} : Res β → Res β
  | .ok v => .ok v
  | .err _ => .panic "unwrap"
  | .panic m => .panic m

section
%(var)s
'''


def main():
    args = sys.argv[1:]
    lean_root = os.path.join(os.path.dirname(os.path.dirname(os.path.abspath(__file__))), "lean")
    if "--lean-root" in args:
        i = args.index("--lean-root")
        lean_root = args[i + 1]
        del args[i:i + 2]
    if len(args) != 2:
        print(__doc__)
        sys.exit(2)
    root, out = args
    errors = []
    chunks = []
    files = {}
    try:
        model, var_line = read_model(lean_root)
        uc = read_uc(root)
        check_uom_macro(root)
    except (TErr, OSError) as e:
        print("translate_kernels: FATAL " + str(e))
        model, var_line, uc = None, None, None
        errors.append(str(e))
    n_ok = 0
    for cfg in FUNCS:
        what = (cfg["impl"] + "::" if cfg["impl"] else "") + cfg["fn"]
        if model is None:
            chunks.append((cfg, None, None, stub(cfg, errors[0])))
            continue
        try:
            fn, head, lines = translate(cfg, root, files, model, uc)
            chunks.append((cfg, fn, head, lines))
            n_ok += 1
        except TErr as e:
            msg = str(e)
            errors.append("%s: %s" % (what, msg))
            print("translate_kernels: ERROR %s: %s" % (what, msg))
            chunks.append((cfg, None, None, stub(cfg, msg)))
    if var_line is None:
        var_line = ("variable {α : Type} [Add α] [Sub α] [Mul α] [Div α] [Neg α] [LT α] [LE α]\n"
                    "  [DecidableLT α] [DecidableLE α] [OfNat α 0] [OfNat α 1]")
    ones = ", ".join(sorted(n for n, v in (uc or {}).items() if v == 1.0)) or "?"
    txt = HEADER % dict(
        ones=ones,
        consts=", ".join("%s = %r" % kv for kv in CONST_FIELDS.items()),
        exc="; ".join("%s.%s ↦ %s" % (s, r, l) for (s, r), l in FIELD_EXC.items())
            + "; RES.eta_interp_grid ↦ gridT gridSoc gridC",
        assume="".join("    * ASSUMPTION: %s\n" % a for a in ASSUMPTIONS),
        var=var_line)
    for cfg, fn, head, lines in chunks:
        what = (cfg["impl"] + "::" if cfg["impl"] else "") + cfg["fn"]
        if fn is not None:
            txt += "\n/-- `%s`   %s:%d-%d   sha256/16 = %s -/\n" % (what, fn.rel, fn.line_lo, fn.line_hi, fn.hash)
            txt += head + "\n" + "\n".join(lines) + "\n"
        else:
            txt += "\n/-- `%s`   %s   NOT TRANSLATED -/\n" % (what, cfg["file"])
            txt += "\n".join(lines) + "\n"
    txt += "\nend\n\n"
    txt += "/-- `false` iff some function was outside the translator's subset (see `translatorErrors`) -/\n"
    txt += "def translatorOk : Bool := %s\n" % ("true" if not errors else "false")
    txt += "def translatorErrors : List String := [%s]\n" % ", ".join(lean_str(e) for e in errors)
    txt += "\nend Altrios.Gen\n"
    if not os.path.exists(out) or open(out, encoding="utf-8").read() != txt:
        os.makedirs(os.path.dirname(os.path.abspath(out)), exist_ok=True)
        with open(out, "w", encoding="utf-8") as f:
            f.write(txt)
        print("translate_kernels: wrote %s" % out)
    else:
        print("translate_kernels: %s unchanged" % out)
    print("translate_kernels: %d/%d functions translated" % (n_ok, len(FUNCS)))
    sys.exit(1 if errors else 0)


if __name__ == "__main__":
    main()
