#!/usr/bin/env python3
"""
translate_train_kernels.py <repo-root> <out.lean> [--lean-root <dir>]

TRANSLATOR for the straight-line kernels of the TRAIN layer of altrios-core (resistance kinds, `Strap::update_res`,
`FricBrake::set_cur_force_max_out`, `TrainState::{res_net, mass, mass_compound}`, `SpeedTrace::{dt, mean}`,
`SetSpeedTrainSim::{solve_required_pwr, solve_step}`, `SpeedLimitTrainSim::{solve_required_pwr, solve_step,
get_scaling_factor, walk_internal (loop condition, and the `ensure!` after the step in the loop body)}`,
`utils::almost_{eq,le}`).

Same idea as scan/translate_kernels.py (whose tokenizer, item scanner and recursive-descent parser are imported
and extended here): read the CURRENT Rust text of the functions listed in FUNCS and write one Lean definition
per function into `Generated/TrainKernels.lean` (namespace `Altrios.GenTr`) over the record types of the
hand-written model (`Altrios/Resist.lean`, `Altrios/Train.lean`, `Altrios/Consist.lean`, `Altrios/PathTpc.lean`).
`Proofs/TrainKernels.lean` proves every regenerated definition EQUAL to the hand-written one, so the theorems of
C03 C07 C11 C12 C14 are theorems about what the code says now.

Subset (in addition to that of translate_kernels.py):
  * receivers `&self` and `&mut self`; parameters that are references to modelled structs (`&TrainState`,
    `&mut TrainState`, `&PathTpc`, `&Dir`);  several mutable objects per function: a function returns the tuple
    of the objects it may write (`Res (A × B × C)`), an assignment `obj.a.b = e` is a nested record update
  * `self` of a simulation struct is a COMPOSITE: its components (`self.state`, `self.loco_con.state`,
    `self.fric_brake`, …) are separate Lean variables, named per function in FUNCS
  * `let (a, b) = self.braking_points.calc_speeds(..)`, `let x: si::T = e`, `bail!(..)` (arguments never read),
    `#[cfg(feature = "logging")] log::…!(..);` (skipped), `.with_context(..)` (argument never read; identity on a
    `Result`, `None ↦ Err` on an `Option`), `.sqrt()`, `.powi(typenum::P2::new())` (= x * x), `x as f64`,
    `match <option> { Some(v) => e, None => e }`, value `if` whose branches contain statements (the branches
    become `do` blocks returning the written objects and the value), `Ok(e)` tails
  * calls of other translated functions, and of a fixed table of hand-modelled callees (CALLEES below) that are
    SHARED by both sides of the equality (path resistance lookup, braking-point lookup, consist, set_link_and_offset)
  * `self.speed_trace.{time,speed}[self.state.i]` / `[self.state.i - 1]` are the parameters tCur vCur / tPrev vPrev

ANYTHING else is an error naming file:line; the function is then emitted as an always-panicking stub,
`translatorOk := false`, exit status 1.  Python 3 standard library only.
"""
import os
import re
import struct
import sys

sys.path.insert(0, os.path.dirname(os.path.abspath(__file__)))
import translate_kernels as TK                                                        # noqa: E402
from translate_kernels import (TErr, N, Parser, SourceFile, Ctx, camel, lit_value, atom, lean_str,   # noqa: E402
                               match_close, read_uc, check_uom_macro, tokenize)

SRC = "rust/altrios-core/src/"
TR = SRC + "train/"

# =============================================================================== configuration

# ambient parameters: name -> (Lean binder type, what it stands for)
AMBIENT = {
    "c": ("Tr.TrConsts α", "the named literals of the train level"),
    "kc": ("PT.Consts α", "the named literals of the powertrain level (handed to the consist callees)"),
    "g": ("α", "uc::ACC_GRAV"),
    "rho": ("α", "uc::rho_air()"),
    "sqrt": ("α → α", "f64::sqrt"),
    "forceMaxCon": ("α", "self.loco_con.force_max()?"),
    "c36525": ("α", "365.25"),
    "ft1000": ("α", "1000.0 * uc::FT"),
    "offsetEnd": ("α", "self.path_tpc.offset_end()"),
}
# numeric literals with a name in `Tr.TrConsts` (value -> field); 0 and 1 are `0` and `1`
CONST_FIELDS = {"half": 0.5, "two": 2.0, "four": 4.0, "eps": 1e-8, "eps7": 1.0e-7}
# literals that are ambient parameters
CONST_AMBIENT = {365.25: "c36525"}
# `uc::X * lit` / `lit * uc::X` products with a name:  (unit const, literal, unit const first?) -> (text, ambient needed)
UNIT_PRODUCTS = {("MPH", 0.1, True): ("c.mph01", "c"), ("FT", 1000.0, False): ("ft1000", "ft1000")}

# views of Rust types onto the model's structures.
#   lean   : Lean type of the variable that holds the object (None: composite, never a variable)
#   parts  : [(Lean path prefix, model structure)]   leaf fields are looked up (camelCase) in these structures
#   only   : admissible Rust leaf names (None: all)
#   rename : Rust leaf name -> Lean field name
#   subs   : Rust field -> (Lean path ("" = flattened into the same structure), view)
VIEWS = {
    "TrainState": dict(lean="Tr.TrainState α", parts=[("r", "ResState"), ("k", "Kin")], subs={}),
    "FricBrake": dict(lean="Tr.FricBrake α", parts=[("", "FricBrake")],
                      only={"force_max", "ramp_up_time", "ramp_up_coeff"}, subs={"state": ("", "FricBrakeState")}),
    "FricBrakeState": dict(lean="Tr.FricBrake α", parts=[("", "FricBrake")], only={"force", "force_max_curr"}, subs={}),
    "ConsistState": dict(lean="CS.ConsistState α", parts=[("", "ConsistState")], subs={}),
    "Consist": dict(lean="CS.Consist α", parts=[], subs={"state": ("state", "ConsistState")}),
    "ResStrap": dict(lean="Rs.ResStrap α", parts=[],
                     subs={"bearing": ("", "BearingBasic"), "rolling": ("", "RollingBasic"),
                           "davis_b": ("", "DavisBBasic"), "aerodynamic": ("", "AeroBasic"),
                           "grade": ("grade", "PathResStrap"), "curve": ("curve", "PathResStrap")}),
    "BearingBasic": dict(lean="Rs.ResStrap α", parts=[("", "ResStrap")], only={"force"}, rename={"force": "bearingForce"}, subs={}),
    "RollingBasic": dict(lean="Rs.ResStrap α", parts=[("", "ResStrap")], only={"ratio"}, rename={"ratio": "rollingRatio"}, subs={}),
    "DavisBBasic": dict(lean="Rs.ResStrap α", parts=[("", "ResStrap")], only={"davis_b"}, rename={"davis_b": "davisB"}, subs={}),
    "AeroBasic": dict(lean="Rs.ResStrap α", parts=[("", "ResStrap")], only={"cd_area"}, rename={"cd_area": "cdArea"}, subs={}),
    "PathResStrap": dict(lean="Rs.StrapIdx", parts=[("", "StrapIdx")], only={"idx_front", "idx_back"},
                         rename={"idx_front": "front", "idx_back": "back"}, subs={}),
    "PathTpc": dict(lean="Tpc.Tpc α", parts=[], subs={}),
    "BrakingPoints": dict(lean="Tr.BrakingPoints α", parts=[], subs={}),
    "SpeedTrace": dict(lean=None, parts=[], subs={}),
    "TrainRes": dict(lean="Rs.ResStrap α", parts=[], subs={}),
    "SetSpeedTrainSim": dict(lean=None, parts=[],
                             subs={"state": ("", "TrainState"), "loco_con": ("", "Consist"), "train_res": ("", "TrainRes"),
                                   "path_tpc": ("", "PathTpc"), "speed_trace": ("", "SpeedTrace")}),
    "SpeedLimitTrainSim": dict(lean=None, parts=[],
                               subs={"state": ("", "TrainState"), "loco_con": ("", "Consist"), "train_res": ("", "TrainRes"),
                                     "path_tpc": ("", "PathTpc"), "fric_brake": ("", "FricBrake"),
                                     "braking_points": ("", "BrakingPoints")},
                               values={"simulation_days": "opt"}),
}
# model structure -> Lean file it is read from
MODEL_FILES = {"ResState": "Resist.lean", "StrapIdx": "Resist.lean", "ResStrap": "Resist.lean",
               "Kin": "Train.lean", "TrainState": "Train.lean", "FricBrake": "Train.lean", "TrConsts": "Train.lean",
               "BrakingPoints": "Train.lean", "ConsistState": "Consist.lean", "Consist": "Consist.lean",
               "Tpc": "PathTpc.lean", "PRC": "PathTpc.lean"}

# Rust parameter types -> kind ("view:<V>" = reference to a modelled struct, "mview:<V>" = mutable reference)
TYPE_KIND = {
    "si::Power": "num", "si::Time": "num", "si::Energy": "num", "si::Velocity": "num", "si::Ratio": "num",
    "si::Force": "num", "si::Length": "num", "si::Mass": "num", "si::Acceleration": "num", "f64": "num",
    "bool": "bool", "usize": "idx", "Option<f64>": "opt",
    "&TrainState": "view:TrainState", "&mutTrainState": "mview:TrainState", "&PathTpc": "view:PathTpc", "&Dir": "dir",
}
RET_KIND = {"": "void", "anyhow::Result<()>": "unit", "si::Force": "num", "si::Time": "num", "si::Velocity": "num",
            "si::Mass": "num", "f64": "num", "bool": "bool", "anyhow::Result<si::Mass>": "res:num",
            "anyhow::Result<Option<si::Mass>>": "res:opt"}
KIND_LEAN = {"num": "α", "bool": "Bool", "opt": "Option α", "dir": "Rs.Dir", "optbool": "Option Bool"}
TRACE_BINDERS = ["vPrev", "vCur", "tPrev", "tCur"]

# The functions, in dependency order.
#   self_view : view of a simple receiver (one Lean variable `self`);   comps : components of a composite receiver
#               [(Rust path below self, Lean variable, mutable)]
#   trace     : Rust text of "the current index" of the speed trace (adds the binders vPrev vCur tPrev tCur)
#   part      : ("after-call", m)  only the statements after the unique top-level statement calling `.m(`
#               ("while-cond",)    only the condition of the unique `while` of the function
#               ("loop-ensure", m) the check made after every `self.m()?` in the body of the unique `while`: the body must be
#                                  (skipped logging statements and) `let`s, then the one statement `self.m()?;`, then the one
#                                  `ensure!(c, …)`; the definition is `!(c)` — TRUE iff the ensure! FAILS — under the `let`s.
#                                  Every component of `comps` is listed TWICE: the first variable is its value BEFORE the
#                                  call (what the `let`s read), the second its value AFTER it (what the ensure! reads)
#   tags/bails: err tags of the n-th ensure! / bail! (ordinal = textual order); the strings of the hand model
FUNCS = [
    dict(lean="almostEq", file=SRC + "utils/mod.rs", impl=None, fn="almost_eq", amb=["c"], params=["num", "num", "opt"], ret="bool"),
    dict(lean="almostLe", file=SRC + "utils/mod.rs", impl=None, fn="almost_le", amb=["c"], params=["num", "num", "opt"], ret="bool"),
    dict(lean="derivedMass", file=TR + "train_state.rs", impl="TrainState", fn="derived_mass", self_view="TrainState",
         params=[], ret="res:opt"),
    dict(lean="trainMass", file=TR + "train_state.rs", impl="TrainState", fn="mass", self_view="TrainState", params=[], ret="res:opt"),
    dict(lean="trainResNet", file=TR + "train_state.rs", impl="TrainState", fn="res_net", self_view="TrainState", params=[], ret="num"),
    dict(lean="massCompound", file=TR + "train_state.rs", impl="TrainState", fn="mass_compound", self_view="TrainState",
         params=[], ret="res:num"),
    dict(lean="bearingCalcRes", file=TR + "resistance/kind/bearing.rs", impl="Basic", fn="calc_res", self_view="BearingBasic",
         params=[], ret="num"),
    dict(lean="rollingCalcRes", file=TR + "resistance/kind/rolling.rs", impl="Basic", fn="calc_res", self_view="RollingBasic",
         params=["view:TrainState"], ret="num"),
    dict(lean="davisBCalcRes", file=TR + "resistance/kind/davis_b.rs", impl="Basic", fn="calc_res", self_view="DavisBBasic",
         params=["view:TrainState"], ret="num"),
    dict(lean="aeroCalcRes", file=TR + "resistance/kind/aerodynamic.rs", impl="Basic", fn="calc_res", self_view="AeroBasic",
         amb=["rho"], params=["view:TrainState"], ret="num"),
    dict(lean="calcResVal", file=TR + "resistance/kind/path_res.rs", impl=None, fn="calc_res_val",
         params=["num", "view:TrainState"], ret="num"),
    dict(fixed="strapCalcRes"),
    dict(lean="updateRes", file=TR + "resistance/method/strap.rs", impl="Strap", fn="update_res", self_view="ResStrap",
         amb=["g", "rho"], params=["mview:TrainState", "view:PathTpc", "dir"], ret="unit"),
    dict(lean="fricSetCurMax", file=TR + "friction_brakes.rs", impl="FricBrake", fn="set_cur_force_max_out",
         self_view="FricBrake", params=["num"], ret="unit"),
    dict(lean="traceDt", file=TR + "set_speed_train_sim.rs", impl="SpeedTrace", fn="dt", self_view="SpeedTrace", trace="i",
         params=["idx"], ret="num"),
    dict(lean="traceMean", file=TR + "set_speed_train_sim.rs", impl="SpeedTrace", fn="mean", self_view="SpeedTrace", trace="i",
         amb=["c"], params=["idx"], ret="num"),
    dict(lean="ssRequiredPwr", file=TR + "set_speed_train_sim.rs", impl="SetSpeedTrainSim", fn="solve_required_pwr",
         amb=["c"], comps=[("loco_con.state", "cs", False), ("state", "st", True)], trace="self.state.i",
         params=["num"], ret="unit", tags=["pos-max-neg"]),
    dict(lean="ssIntegrate", file=TR + "set_speed_train_sim.rs", impl="SetSpeedTrainSim", fn="solve_step",
         part=("after-call", "solve_energy_consumption"),
         amb=["c"], comps=[("path_tpc", "tpc", False), ("state", "st", True)], trace="self.state.i", params=[], ret="unit"),
    dict(lean="ssStep", file=TR + "set_speed_train_sim.rs", impl="SetSpeedTrainSim", fn="solve_step",
         amb=["kc", "c", "g", "rho"],
         comps=[("path_tpc", "tpc", False), ("loco_con", "con", True), ("train_res", "res", True), ("state", "st", True)],
         trace="self.state.i", params=[], ret="unit", tags=["negative-speed", "negative-speed-prev"]),
    dict(lean="slRequiredPwr", file=TR + "speed_limit_train_sim.rs", impl="SpeedLimitTrainSim", fn="solve_required_pwr",
         amb=["c", "sqrt", "forceMaxCon"],
         comps=[("loco_con.state", "cs", False), ("fric_brake", "fb", True), ("braking_points", "bp", True), ("state", "st", True)],
         params=[], ret="unit",
         tags=["insufficient-braking-force", "pos-max-neg", "fric-brake-over-max", "whl-above-pos-max", "whl-below-neg-max"],
         bails=["insufficient-power-to-move"]),
    dict(lean="slStep", file=TR + "speed_limit_train_sim.rs", impl="SpeedLimitTrainSim", fn="solve_step",
         amb=["kc", "c", "sqrt", "forceMaxCon", "g", "rho"],
         comps=[("path_tpc", "tpc", False), ("loco_con", "con", True), ("train_res", "res", True), ("fric_brake", "fb", True),
                ("braking_points", "bp", True), ("state", "st", True)],
         params=[], ret="unit"),
    dict(lean="scalingFactor", file=TR + "speed_limit_train_sim.rs", impl="SpeedLimitTrainSim", fn="get_scaling_factor",
         amb=["c36525"], comps=[("simulation_days", "days", False)], params=["bool"], ret="num"),
    dict(lean="walkCond", file=TR + "speed_limit_train_sim.rs", impl="SpeedLimitTrainSim", fn="walk_internal",
         part=("while-cond",), amb=["ft1000", "offsetEnd"], comps=[("state", "st", False)], params=[], ret="bool"),
    dict(lean="walkStuck", file=TR + "speed_limit_train_sim.rs", impl="SpeedLimitTrainSim", fn="walk_internal",
         part=("loop-ensure", "step"), amb=["ft1000", "offsetEnd"], comps=[("state", "st0", False), ("state", "st", False)],
         params=[], ret="bool"),
]
for _f in FUNCS:
    _f.setdefault("amb", [])
    _f.setdefault("tags", [])
    _f.setdefault("bails", [])
    _f.setdefault("comps", None)
    _f.setdefault("self_view", None)
    _f.setdefault("trace", None)
    _f.setdefault("part", None)

FIXED = {
    "strapCalcRes": '''/-- SHARED CALLEE `path_res::Strap::calc_res(path_res_coeffs, state, dir)` as the hand model has it: the cached-index
    search and the coefficient are `Rs.strapCoeff`, the force is the regenerated `calc_res_val` of it -/
def strapCalcRes (pts : List (Tpc.PRC α)) (s : Rs.StrapIdx) (state : Tr.TrainState α) (dir : Rs.Dir) :
    Res (Rs.StrapIdx × α) := do
  let (i, coeff) ← Rs.strapCoeff pts s state.r.offset state.r.offsetBack state.r.length dir
  pure (i, calcResVal coeff state)
''',
}

# (view, Rust method) -> translated function
METHODS = {("TrainState", "derived_mass"): "derivedMass", ("TrainState", "mass"): "trainMass",
           ("TrainState", "res_net"): "trainResNet", ("TrainState", "mass_compound"): "massCompound",
           ("BearingBasic", "calc_res"): "bearingCalcRes", ("RollingBasic", "calc_res"): "rollingCalcRes",
           ("DavisBBasic", "calc_res"): "davisBCalcRes", ("AeroBasic", "calc_res"): "aeroCalcRes",
           ("TrainRes", "update_res"): "updateRes",
           ("FricBrake", "set_cur_force_max_out"): "fricSetCurMax",
           ("SpeedTrace", "dt"): "traceDt", ("SpeedTrace", "mean"): "traceMean",
           ("SetSpeedTrainSim", "solve_required_pwr"): "ssRequiredPwr",
           ("SpeedLimitTrainSim", "solve_required_pwr"): "slRequiredPwr"}
FREE_FNS = {"almost_eq": "almostEq", "almost_le": "almostLe", "calc_res_val": "calcResVal"}
# hand-modelled callees shared by both sides (documented in the generated header)
CALLEES = [
    "path_res::Strap::calc_res ↦ Rs.strapCoeff then the regenerated calc_res_val (strapCalcRes)",
    "path_res::Strap::{res_coeff_front, res_coeff_back} ↦ (← Rs.getP pts idx).coeff;  res_net_front ↦ Tpc.prcVal (← Rs.getP pts front) offset",
    "PathTpc::{grades, curves, link_points}() ↦ the fields of Tpc.Tpc",
    "BrakingPoints::calc_speeds ↦ Tr.calcSpeeds (its assert! is the panic outcome)",
    "Consist::set_pwr_aux(e)? ↦ CS.consistSetAux;  set_cur_pwr_max_out(None, dt)? ↦ CS.consistSetCurMax;  "
    "solve_energy_consumption(p, dt, e)? ↦ CS.consistSolve;  force_max()? ↦ the parameter forceMaxCon;  "
    "set_cat_power_limit(..) is skipped (it writes only loco_con.state.pwr_cat_lim, which nothing modelled reads)",
    "set_link_and_offset(&mut state, &path_tpc)? ↦ Tr.setLinkAndOffset tpc.linkPoints",
    "TrainRes::update_res ↦ the regenerated method::Strap::update_res (the hand model's scope: the Strap variant)",
]

RESERVED = set(TK.RESERVED) | set(AMBIENT) | set(TRACE_BINDERS) | {
    "cs", "st", "st0", "fb", "bp", "con", "res", "tpc", "days", "bail", "ctxOpt", "strapCalcRes", "state"} \
    | {f["lean"] for f in FUNCS if "lean" in f}
RESERVED.discard("state")      # `state` is a legitimate parameter name (a `&mut TrainState`)

ASSUMPTIONS = []


def note(s):
    if s not in ASSUMPTIONS:
        ASSUMPTIONS.append(s)


# =============================================================================== parser extensions

class TParser(Parser):
    """the parser of translate_kernels.py plus: `&self`, reference parameters, tuple / typed `let`, `bail!`,
    skipped logging statements, `match`, `as`, `while` (only to extract its condition, or the `ensure!` of its body),
    unread `.with_context(..)`"""

    def signature(self):
        self.eat("fn")
        name = self.ident()
        if self.at("<"):
            self.err("generic functions are outside the subset")
        self.eat("(")
        params = []
        recv = None
        while not self.at(")"):
            if self.at("&") and self.at("mut", 1) and self.at("self", 2):
                self.i += 3
                recv = "mut"
            elif self.at("&") and self.at("self", 1):
                self.i += 2
                recv = "ref"
            elif self.at("self") or self.at("mut"):
                self.err("by-value / `mut` parameters are outside the subset")
            else:
                pn = self.ident()
                self.eat(":")
                ty = []
                depth = 0
                while not (depth == 0 and (self.at(",") or self.at(")"))):
                    x = self.peek()
                    depth += (x.t in ("<", "(", "[")) - (x.t in (">", ")", "]"))
                    ty.append(x.t)
                    self.i += 1
                params.append((pn, "".join(ty), self.T[self.i - 1].line))
            if self.at(","):
                self.i += 1
        self.eat(")")
        ret = []
        if self.at("->"):
            self.i += 1
            while not self.at("{"):
                ret.append(self.peek().t)
                self.i += 1
        if self.i != self.fn.body_lo:
            self.err("could not delimit the signature")
        return name, recv, params, "".join(ret)

    def skip_parens(self):
        if not self.at("("):
            self.err("macro with a non-parenthesis delimiter")
        close = match_close(self.T, self.i, self.rel)
        self.i = close + 1

    def stmt_extra(self):
        x = self.peek()
        # #[cfg(feature = "logging")] log::<level>!( … );      -- skipped (the logging feature is off in the harness)
        if x.k == "op" and x.t == "#":
            want = ["#", "[", "cfg", "(", "feature", "=", '"logging"', ")", "]", "log", "::"]
            got = [self.T[self.i + d].t for d in range(len(want))]
            if got != want:
                self.err("attributes inside a function body are outside the subset (only #[cfg(feature = \"logging\")] log::…!)")
            self.i += len(want)
            self.ident()
            self.eat("!")
            self.skip_parens()
            self.eat(";")
            return ("stmt", None)
        if self.at("bail") and self.at("!", 1):
            self.i += 2
            self.skip_parens()                    # message arguments: never read
            if self.at(";"):
                self.i += 1
            elif not self.at("}"):
                self.err("expected ';' or '}' after bail!")
            return ("stmt", N("bail", x.line))
        if self.at("match"):
            e = self.match_expr()
            if self.at("}"):
                return ("tail", e)
            if self.at(";"):
                self.i += 1
            return ("stmt", N("exprstmt", x.line, e=e))
        if self.at("while"):
            self.i += 1
            saved, self.in_cond = self.in_cond, True
            cond = self.expr()
            self.in_cond = saved
            lb = self.peek()
            if not self.at("{"):
                self.err("expected the body of `while`")
            close = match_close(self.T, self.i, self.rel)
            body_lo = self.i
            self.i = close + 1                    # the body is not read here (`loop_body` reads it for the part "loop-ensure")
            return ("stmt", N("while", x.line, cond=cond, body_line=lb.line, body_lo=body_lo, body_hi=close))
        return None

    def loop_body(self, w):
        """the body of the `while` statement `w` of this function, as a block"""
        saved = self.i
        self.i = w.body_lo
        b = self.block()
        if self.i != w.body_hi + 1:
            self.err("could not delimit the body of `while`")
        self.i = saved
        return b

    def method_args(self, name):
        if name == "with_context":
            self.skip_parens()                    # the context closure: never read
            return []
        return self.args()

    def let_stmt(self):
        l = self.eat("let")
        if self.at("mut"):
            self.i += 1
        if self.at("("):
            self.i += 1
            names = [self.ident()]
            while self.at(","):
                self.i += 1
                names.append(self.ident())
            self.eat(")")
            self.eat("=")
            e = self.expr()
            self.eat(";")
            return N("lettuple", l.line, names=names, e=e)
        x = self.peek()
        if x.k != "id":
            self.err("only `let [mut] <ident> = …` and `let (a, b) = …` are supported")
        name = self.ident()
        ty = None
        if self.at(":"):
            self.i += 1
            t = []
            while not self.at("="):
                t.append(self.peek().t)
                self.i += 1
            ty = "".join(t)
        self.eat("=")
        e = self.expr()
        self.eat(";")
        return N("let", l.line, name=name, e=e, ty=ty)

    def unary(self):
        e = super().unary()
        while self.at("as"):
            a = self.peek()
            self.i += 1
            ty = self.ident()
            e = N("cast", a.line, e=e, ty=ty)
        return e

    def primary(self):
        if self.at("match"):
            return self.match_expr()
        return super().primary()

    def match_expr(self):
        m = self.eat("match")
        saved, self.in_cond = self.in_cond, True
        scrut = self.expr()
        self.in_cond = saved
        self.eat("{")
        arms = []
        while not self.at("}"):
            p = self.peek()
            if self.at("Some") and self.at("(", 1):
                self.i += 2
                v = self.ident()
                self.eat(")")
                pat = ("Some", v)
            elif self.at("None"):
                self.i += 1
                pat = ("None", None)
            else:
                self.err("only the patterns `Some(x)` and `None` are supported in `match`")
            if self.at("if"):
                self.err("match guards are outside the subset")
            self.eat("=>")
            if self.at("{"):
                self.err("block-bodied match arms are outside the subset")
            body = self.expr()
            if self.at(","):
                self.i += 1
            elif not self.at("}"):
                self.err("expected ',' or '}' after a match arm")
            arms.append((pat, body, p.line))
        self.eat("}")
        return N("match", m.line, scrut=scrut, arms=arms)


# =============================================================================== the model's structures and constants

def read_structs(lean_root):
    """fields (name -> kind) of the model structures listed in MODEL_FILES, and the `variable` line of Train.lean"""
    structs = {}
    for fname in sorted(set(MODEL_FILES.values())):
        p = os.path.join(lean_root, "Altrios", fname)
        txt = open(p, encoding="utf-8").read()
        for m in re.finditer(r"^structure (\w+)(?: \(α : Type\))? where\n((?:  .*\n)+)", txt, re.M):
            if MODEL_FILES.get(m.group(1)) != fname:
                continue
            body = re.sub(r"/--.*?-/", "", m.group(2), flags=re.S)
            fields = {}
            for l in body.splitlines():
                l = l.split("--")[0].strip()
                if not l or l.startswith("deriving"):
                    continue
                fm = re.fullmatch(r"(\w+) : (.+)", l)
                if not fm:
                    raise TErr("Altrios/%s: cannot read field line %r of structure %s" % (fname, l, m.group(1)))
                ty = fm.group(2).strip()
                fields[fm.group(1)] = {"α": "num", "Bool": "bool", "Nat": "nat", "List α": "list",
                                       "Option α": "opt"}.get(ty, "other:" + ty)
            structs[m.group(1)] = fields
    for s, fname in MODEL_FILES.items():
        if s not in structs:
            raise TErr("Altrios/%s: structure %s not found" % (fname, s))
    txt = open(os.path.join(lean_root, "Altrios", "Train.lean"), encoding="utf-8").read()
    vm = re.search(r"^variable \{α : Type\}.*\n(?:  .*\n)*", txt, re.M)
    if not vm:
        raise TErr("Altrios/Train.lean: `variable {α : Type} …` line not found")
    return structs, vm.group(0).rstrip("\n")


def f64_bits(v):
    return "0x%016x" % struct.unpack("<Q", struct.pack("<d", v))[0]


def lean_float(text, where):
    """value of a Float expression of the driver: products of decimal literals and `Float.ofBits 0x…`"""
    v = None
    for part in text.split("*"):
        part = part.strip()
        m = re.fullmatch(r"Float\.ofBits 0x([0-9a-fA-F]{16})", part)
        if m:
            x = struct.unpack("<d", struct.pack("<Q", int(m.group(1), 16)))[0]
        else:
            try:
                x = float(part)
            except ValueError:
                raise TErr("%s: cannot evaluate the Float expression %r" % (where, text))
        v = x if v is None else v * x
    return v


def check_constants(root, lean_root, structs, uc):
    """the translator's literal table, uc.rs and the driver's Float instantiation (Driver/OpsTrain.lean) must agree"""
    where = "Driver/OpsTrain.lean"
    txt = open(os.path.join(lean_root, "Driver", "OpsTrain.lean"), encoding="utf-8").read()
    txt = "\n".join(l.split("--")[0] for l in txt.splitlines())
    km = re.search(r"def cF : TrConsts Float :=\s*\{(.*?)\}", txt, re.S)
    if not km:
        raise TErr(where + ": `def cF : TrConsts Float := {…}` not found")
    cf = {}
    for part in km.group(1).split(","):
        a, b = part.split(":=")
        cf[a.strip()] = lean_float(b, where)
    for f, v in CONST_FIELDS.items():
        if f not in structs["TrConsts"] or cf.get(f) != v:
            raise TErr("Tr.TrConsts.%s: the translator's literal table says %r, %s cF says %r" % (f, v, where, cf.get(f)))
    for need in ("MPH", "FT", "ACC_GRAV", "KGPM3"):
        if uc.get(need) is None:
            raise TErr("%suc.rs: unit constant %s not found" % (SRC, need))
    if "mph01" not in structs["TrConsts"] or cf.get("mph01") != uc["MPH"] * 0.1:
        raise TErr("Tr.TrConsts.mph01: uc.rs says MPH * 0.1 = %r, %s cF says %r" % (uc["MPH"] * 0.1, where, cf.get("mph01")))

    def scalar(name):
        m = re.search(r"^def %s : Float := (.*)$" % name, txt, re.M)
        if not m:
            raise TErr("%s: `def %s : Float := …` not found" % (where, name))
        return lean_float(m.group(1), where)
    if scalar("accGrav") != uc["ACC_GRAV"]:
        raise TErr("uc::ACC_GRAV = %r in uc.rs, accGrav = %r in %s" % (uc["ACC_GRAV"], scalar("accGrav"), where))
    if scalar("ft1000") != 1000.0 * uc["FT"]:
        raise TErr("1000.0 * uc::FT = %r by uc.rs, ft1000 = %r in %s" % (1000.0 * uc["FT"], scalar("ft1000"), where))
    # pub fn rho_air() -> MassDensity { KGPM3 * 1.225 }
    rel = SRC + "uc.rs"
    sf = SourceFile(root, rel)
    fn = sf.find(None, "rho_air")
    body = [t.t for t in fn.toks[fn.body_lo + 1:fn.hi]]
    if not (len(body) == 3 and body[0] == "KGPM3" and body[1] == "*" and uc["KGPM3"] == 1.0
            and scalar("rhoAir") == uc["KGPM3"] * lit_value(body[2])):
        raise TErr("%s:%d: uc::rho_air() is no longer `KGPM3 * <lit>` with the value of rhoAir in %s"
                   % (rel, fn.line_lo, where))
    m = re.search(r"scalingFactor ([0-9.eE+-]+) ", txt)
    if not m or float(m.group(1)) != 365.25:
        raise TErr("%s: the scaling_factor op no longer passes 365.25" % where)


# =============================================================================== interfaces of the translated functions

def comp_view(impl, path):
    """view (or 'value:<kind>') of the component `self.<path>` of the composite `impl`"""
    view = impl
    segs = path.split(".")
    for i, s in enumerate(segs):
        v = VIEWS[view]
        if s in v["subs"]:
            view = v["subs"][s][1]
        elif i == len(segs) - 1 and s in v.get("values", {}):
            return "value:" + v["values"][s]
        else:
            raise TErr("translator table: `%s` has no component `%s`" % (impl, path))
    return view


def view_lean(view):
    if view.startswith("value:"):
        return KIND_LEAN[view[6:]]
    return VIEWS[view]["lean"]


class Iface:
    """binders and result of a translated function, from the table alone (so that a stub has the same type)"""

    def __init__(self, cfg):
        self.cfg = cfg
        self.amb = cfg["amb"]
        self.objs = []           # (lean var, view, mutable, source)   source: ("self",) | ("comp", path)
        if cfg["comps"]:
            for path, var, mut in cfg["comps"]:
                self.objs.append((var, comp_view(cfg["impl"], path), mut, ("comp", path)))
        elif cfg["self_view"] and VIEWS[cfg["self_view"]]["lean"]:
            self.objs.append(("self", cfg["self_view"], cfg["ret"] == "unit", ("self",)))
        self.trace = cfg["trace"] is not None
        self.params = cfg["params"]
        self.ret = cfg["ret"]

    def mut_types(self):
        t = [view_lean(v) for _, v, m, _ in self.objs if m]
        t += [VIEWS[p[6:]]["lean"] for p in self.params if p.startswith("mview:")]
        return t

    def ret_lean(self):
        r = self.ret
        if r == "unit":
            t = self.mut_types()
            return "Res (%s)" % " × ".join(t) if t else "Res Unit"
        if r.startswith("res:"):
            return "Res %s" % atom(KIND_LEAN[r[4:]])
        return KIND_LEAN[r]

    def binders(self, names=None):
        """names: Lean names of the Rust parameters (None: a0, a1, … for a stub)"""
        b = ["(%s : %s)" % (a, AMBIENT[a][0]) for a in self.amb]
        b += ["(%s : %s)" % (v, view_lean(view)) for v, view, _, _ in self.objs]
        if self.trace:
            b.append("(%s : α)" % " ".join(TRACE_BINDERS))
        i = 0
        for k, p in enumerate(self.params):
            if p == "idx":
                continue                      # the index of the speed trace: replaced by the four sample binders
            n = names[k] if names else "a%d" % i
            i += 1
            if p.startswith("view:") or p.startswith("mview:"):
                b.append("(%s : %s)" % (n, VIEWS[p.split(":")[1]]["lean"]))
            else:
                b.append("(%s : %s)" % (n, KIND_LEAN[p]))
        return b


class Ref:
    """a Rust place that denotes (part of) a model object"""

    def __init__(self, var, path, view, mut, comp=None):
        self.var, self.path, self.view, self.mut, self.comp = var, path, view, mut, comp

    def lean(self):
        return ".".join([self.var] + self.path)


# =============================================================================== translation

def rust_text(e):
    """canonical text of a simple index expression (`self.state.i`, `i`, `self.state.i - 1`)"""
    if e.kind == "path":
        return "::".join(e.segs)
    if e.kind == "field":
        return rust_text(e.recv) + "." + e.name
    if e.kind == "num":
        return e.text
    if e.kind == "bin":
        return "%s %s %s" % (rust_text(e.l), e.op, rust_text(e.r))
    return "<%s>" % e.kind


def calls_method(node, name):
    """does the AST contain a method call `.name(`"""
    if isinstance(node, N):
        if node.kind == "method" and node.name == name:
            return True
        return any(calls_method(v, name) for k, v in node.__dict__.items() if k not in ("kind", "line"))
    if isinstance(node, (list, tuple)):
        return any(calls_method(v, name) for v in node)
    return False


class TrCtx(Ctx):
    """translation of one function of the train layer"""

    def __init__(self, cfg, fn, sf, structs, uc, table):
        self.cfg, self.fn, self.sf = cfg, fn, sf
        self.structs = structs
        self.uc = uc
        self.rel = fn.rel
        self.impl = fn.impl
        self.S, self.SS = None, None
        self.locals = {}              # rust name -> (lean text, kind)
        self.arrays = {}
        self.aliases = set()
        self.lines = []
        self.tmp = 0
        self.ensures = 0
        self.can_hoist = True
        self.monadic = True
        self.indent = 2
        self.table = table            # lean name -> cfg of every function of FUNCS
        self.iface = Iface(cfg)
        self.objs = {}                # rust root name -> Ref
        self.comps = {}               # component path of a composite self -> (lean var, mutable, view)
        self.bails = 0
        self.env = []                 # Lean variables of the mutable objects, in result order

    # ---- small helpers
    def need_amb(self, node, name):
        if name not in self.cfg["amb"]:
            self.err(node, "uses %s (%s), which the translator's table does not give this function" % (name, AMBIENT[name][1]))
        return name

    def local_name(self, node, rust):
        n = camel(rust)
        if n in RESERVED or n in self.env or any(r.var == n for r in self.objs.values()):
            self.err(node, "local name %r maps to the reserved Lean identifier %r" % (rust, n))
        return n

    def env_pat(self, extra=None):
        v = list(self.env) + ([extra] if extra else [])
        if not v:
            return "()"
        return v[0] if len(v) == 1 else "(" + ", ".join(v) + ")"

    # ---- literals / constants
    def literal(self, node, text):
        if re.search(r"(usize|isize|[iu]\d+|f32)$", text):
            self.err(node, "literal %s has a non-f64 suffix" % text)
        v = lit_value(text)
        if v == 0.0:
            return "0"
        if v == 1.0:
            return "1"
        for f, fv in CONST_FIELDS.items():
            if v == fv:
                return self.need_amb(node, "c") + "." + f
        if v in CONST_AMBIENT:
            return self.need_amb(node, CONST_AMBIENT[v])
        self.err(node, "numeric literal %s has no name in Tr.TrConsts (known: 0, 1, %s, 365.25)"
                 % (text, ", ".join("%s=%r" % kv for kv in CONST_FIELDS.items())))

    # ---- objects
    def resolve(self, e):
        if e.kind == "ref":
            return self.resolve(e.e)
        if e.kind == "path" and len(e.segs) == 1:
            return self.objs.get(e.segs[0])
        if e.kind == "field":
            base = self.resolve(e.recv)
            if base is None:
                return None
            subs = VIEWS[base.view]["subs"]
            if e.name not in subs:
                return None
            lp, sub = subs[e.name]
            if base.comp is not None:              # below a composite `self`
                key = (base.comp + "." + e.name).lstrip(".")
                if key in self.comps:
                    var, mut, view = self.comps[key]
                    return Ref(var, [], view, mut)
                return Ref(None, [], sub, False, comp=key)
            return Ref(base.var, base.path + ([lp] if lp else []), sub, base.mut)
        return None

    def leaf(self, node, ref, name):
        """(Lean path below the variable, kind) of the leaf field `name` of the object `ref`"""
        v = VIEWS[ref.view]
        if ref.comp is not None:
            key = (ref.comp + "." + name).lstrip(".")
            if name in v.get("values", {}) and key in self.comps:
                return None, self.comps[key]
            self.err(node, "`self.%s` is not available to this function (translator's table)" % key)
        if ref.var is None:
            self.err(node, "field `%s` of an object that is not a variable of the model" % name)
        if v.get("only") is not None and name not in v["only"]:
            self.err(node, "`%s` is not a modelled field of %s" % (name, ref.view))
        lean = v.get("rename", {}).get(name) or camel(name)
        for prefix, sname in v["parts"]:
            if lean in self.structs[sname]:
                return ref.path + ([prefix] if prefix else []) + [lean], self.structs[sname][lean]
        self.err(node, "field `%s` (Lean `%s`) is not a field of the model structure(s) %s of %s"
                 % (name, lean, "/".join(s for _, s in v["parts"]) or "-", ref.view))

    def field(self, e):
        base = self.resolve(e.recv)
        if base is None:
            self.err(e, "field access `.%s` on something that is not a modelled object" % e.name)
        path, kind = self.leaf(e, base, e.name)
        if path is None:                       # a value component of a composite
            var, _, view = kind
            return var, view[6:]
        if kind not in ("num", "bool", "opt", "nat"):
            self.err(e, "field `%s` of kind %s used as a value" % (e.name, kind))
        return ".".join([base.var] + path), kind

    def place(self, e):
        if e.kind != "field":
            self.err(e, "assignment target outside the subset (only fields of modelled objects)")
        base = self.resolve(e.recv)
        if base is None:
            self.err(e, "assignment to a field of something that is not a modelled object")
        path, kind = self.leaf(e, base, e.name)
        if path is None or not base.mut or base.var not in self.env:
            self.err(e, "assignment to `%s`, which this function may not write (translator's table)" % rust_text(e))
        return base.var, path, kind

    def emit_update(self, var, path, val):
        def build(prefix, rest):
            if len(rest) == 1:
                return "{ %s with %s := %s }" % (prefix, rest[0], val)
            return "{ %s with %s := %s }" % (prefix, rest[0], build(prefix + "." + rest[0], rest[1:]))
        self.emit("let %s := %s" % (var, build(var, path)))

    # ---- the speed trace
    def trace_sample(self, e):
        """self.speed_trace.{time,speed}[IDX] / [IDX - 1]"""
        r = e.recv
        base = self.resolve(r.recv) if r.kind == "field" else None
        if base is None or base.view != "SpeedTrace" or r.name not in ("time", "speed"):
            self.err(e, "indexing is outside the subset (only speed_trace.time[i] / speed[i] / [i - 1])")
        cur = self.cfg["trace"]
        if cur is None:
            self.err(e, "speed trace sample in a function without trace parameters (translator's table)")
        t = rust_text(e.idx)
        if t == cur:
            return ("tCur" if r.name == "time" else "vCur"), "num"
        if t == cur + " - 1":
            return ("tPrev" if r.name == "time" else "vPrev"), "num"
        self.err(e, "speed trace index `%s` is neither `%s` nor `%s - 1`" % (t, cur, cur))

    # ---- expressions
    def expr(self, e):
        k = e.kind
        if k == "index":
            return self.trace_sample(e)
        if k == "cast":
            t, kd = self.expr(e.e)
            if e.ty != "f64" or kd != "num":
                self.err(e, "only `<number> as f64` is supported")
            note("`x as f64` is the identity (integer parameters of the model are already numbers of the field)")
            return t, "num"
        if k == "match":
            return self.match_value(e)
        if k == "try":
            t, kd = self.expr(e.e)
            if kd.startswith("tried:"):
                return t, kd[6:]
            if kd == "ambres":
                return t, "num"
            if kd.startswith("res:"):
                return self.hoist(e, t), kd[4:]
            self.err(e, "`?` applied to something that is not a translated fallible call (kind %s)" % kd)
        if k == "ref" and not e.mut:
            return self.expr(e.e)
        return Ctx.expr(self, e)

    def path(self, e):
        s = e.segs
        if len(s) == 1:
            n = s[0]
            if n in self.locals:
                return self.locals[n]
            if n in ("true", "false"):
                return n, "bool"
            if n == "None":
                return "none", "opt"
            if n in self.objs:
                self.err(e, "object `%s` used as a value" % n)
            if n in self.sf.consts:
                return self.literal(e, self.sf.consts[n]), "num"
            self.err(e, "unknown name `%s`" % n)
        if len(s) == 3 and s[0] == "si" and s[2] == "ZERO":
            return "0", "num"
        if s[0] == "Dir" and len(s) == 2 and s[1] in ("Fwd", "Bwd", "Unk"):
            return "Rs.Dir." + s[1].lower(), "dir"
        if self.is_unit_const(e):
            self.err(e, "unit constant uc::%s outside a product" % s[1])
        self.err(e, "path `%s` outside the subset" % "::".join(s))

    def arith(self, e):
        if e.op == "*":
            for a, b, first in ((e.l, e.r, True), (e.r, e.l, False)):
                if self.is_unit_const(a):
                    name = a.segs[1]
                    if name not in self.uc or self.uc[name] is None:
                        self.err(a, "unit constant uc::%s not found in uc.rs" % name)
                    if b.kind == "num" and (name, lit_value(b.text), first) in UNIT_PRODUCTS:
                        txt, amb = UNIT_PRODUCTS[(name, lit_value(b.text), first)]
                        self.need_amb(e, amb)
                        return txt, "num"
                    if name == "ACC_GRAV":
                        t, kd = self.expr(b)
                        self.want(b, kd, "num", "factor of uc::ACC_GRAV")
                        g = self.need_amb(e, "g")
                        return ("%s * %s" % (g, atom(t)) if first else "%s * %s" % (atom(t), g)), "num"
                    if self.uc[name] != 1.0:
                        self.err(a, "unit constant uc::%s has value %r in uc.rs: only constants equal to 1.0, "
                                 "uc::ACC_GRAV and the named products %s are translated"
                                 % (name, self.uc[name], ", ".join("%s*%r" % (k[0], k[1]) for k in UNIT_PRODUCTS)))
                    t, kd = self.expr(b)
                    self.want(b, kd, "num", "factor of a unit constant")
                    return t, "num"
        l, lk = self.expr(e.l)
        r, rk = self.expr(e.r)
        self.want(e.l, lk, "num", "left operand of " + e.op)
        self.want(e.r, rk, "num", "right operand of " + e.op)
        return "%s %s %s" % (atom(l), e.op, atom(r)), "num"

    def match_value(self, e):
        t, kd = self.expr(e.scrut)
        self.want(e.scrut, kd, "opt", "scrutinee of `match`")
        pats = [a[0][0] for a in e.arms]
        if sorted(pats) != ["None", "Some"]:
            self.err(e, "only `match <option> { Some(x) => …, None => … }` is supported")
        saved, sh = dict(self.locals), self.can_hoist
        self.can_hoist = False
        out = {}
        for (tag, var), body, line in e.arms:
            self.locals = dict(saved)
            if tag == "Some":
                v = self.local_name(e, var)
                self.locals[var] = (v, "num")
                bt, bk = self.expr(body)
                out["Some"] = "| some %s => %s" % (v, bt)
            else:
                bt, bk = self.expr(body)
                out["None"] = "| none => %s" % bt
            self.want(body, bk, "num", "match arm")
        self.locals, self.can_hoist = saved, sh
        return "(match %s with %s %s)" % (t, out["Some"], out["None"]), "num"

    def call(self, e):
        p = "::".join(e.path)
        if p == "Some":
            if len(e.args) != 1:
                self.err(e, "Some(..) with %d arguments" % len(e.args))
            t, kd = self.expr(e.args[0])
            if kd == "bool":
                return "some " + atom(t), "optbool"
            self.want(e, kd, "num", "argument of Some")
            return "some " + atom(t), "opt"
        m = re.fullmatch(r"(?:utils::)?(almost_(?:eq|le))(_uom)?", p)
        if m:
            if len(e.args) != 3:
                self.err(e, "%s with %d arguments" % (p, len(e.args)))
            a, ak = self.expr(e.args[0])
            b, bk = self.expr(e.args[1])
            c, ck = self.expr(e.args[2])
            self.want(e.args[0], ak, "num", p + " val1")
            self.want(e.args[1], bk, "num", p + " val2")
            self.want(e.args[2], ck, "opt", p + " epsilon")
            return "%s %s %s %s %s" % (FREE_FNS[m.group(1)], self.need_amb(e, "c"), atom(a), atom(b), atom(c)), "bool"
        if p == "uc::rho_air":
            if e.args:
                self.err(e, "uc::rho_air with arguments")
            return self.need_amb(e, "rho"), "num"
        if p == "calc_res_val":
            return self.gen_call(e, self.table["calcResVal"], None, e.args)
        if p == "set_link_and_offset":
            if len(e.args) != 2:
                self.err(e, "set_link_and_offset with %d arguments" % len(e.args))
            st, tpc = self.resolve(e.args[0]), self.resolve(e.args[1])
            if not (st and st.view == "TrainState" and tpc and tpc.view == "PathTpc" and e.args[0].kind == "ref"
                    and e.args[0].mut):
                self.err(e, "set_link_and_offset must be called as set_link_and_offset(&mut <state>, &<path_tpc>)")
            self.write_back(e, st, "Tr.setLinkAndOffset %s.linkPoints %s" % (self.obj_arg(e, tpc), self.obj_arg(e, st)))
            return "()", "tried:unit"
        self.err(e, "call of `%s` is outside the subset" % p)

    def obj_arg(self, node, ref):
        if ref is None or ref.var is None:
            self.err(node, "argument is not an object available to this function (translator's table)")
        return ref.lean()

    def write_back(self, node, ref, action, extra=None):
        """`let <ref> ← action` (action : Res <type of ref>), or with `extra` a further value: Res (type × value)"""
        if not self.monadic or not self.can_hoist:
            self.err(node, "a call that writes an object, in a conditionally evaluated position or a value function")
        if ref is None or ref.var is None or not ref.mut or ref.var not in self.env:
            self.err(node, "call writes an object this function may not write (translator's table)")
        if not ref.path:
            self.emit("let %s ← %s" % ("(%s, %s)" % (ref.var, extra) if extra else ref.var, action))
        else:
            n = self.fresh("o")
            self.emit("let %s ← %s" % ("(%s, %s)" % (n, extra) if extra else n, action))
            self.emit_update(ref.var, ref.path, n)

    def method(self, e):
        n = e.name
        if n == "with_context":
            t, kd = self.expr(e.recv)
            if kd.startswith("res:") or kd.startswith("tried:") or kd == "ambres":
                return t, kd                   # Result::with_context: the value is unchanged (messages are not compared)
            if kd == "opt":
                return "ctxOpt " + atom(t), "res:num"
            self.err(e, ".with_context on kind %s" % kd)
        base = self.resolve(e.recv)
        if base is not None:
            return self.obj_method(e, base)
        if e.tf is not None:
            self.err(e, "turbofish on `.%s` is outside the subset" % n)
        if n == "unwrap_or":
            t, kd = self.expr(e.recv)
            self.want(e, kd, "opt", "receiver of .unwrap_or")
            if len(e.args) != 1:
                self.err(e, ".unwrap_or with %d arguments" % len(e.args))
            a, ak = self.expr(e.args[0])
            self.want(e, ak, "num", "argument of .unwrap_or")
            return "%s.getD %s" % (atom(t), atom(a)), "num"
        if n in ("min", "max", "abs", "sqrt", "powi"):
            t, kd = self.expr(e.recv)
            self.want(e, kd, "num", "receiver of ." + n)
            if n in ("min", "max"):
                if len(e.args) != 1:
                    self.err(e, ".%s with %d arguments" % (n, len(e.args)))
                a, ak = self.expr(e.args[0])
                self.want(e, ak, "num", "argument of ." + n)
                return "%s %s %s" % ("mn" if n == "min" else "mx", atom(t), atom(a)), "num"
            if n == "powi":
                a = e.args[0] if len(e.args) == 1 else None
                if not (a is not None and a.kind == "call" and a.path == ["typenum", "P2", "new"] and not a.args):
                    self.err(e, "only `.powi(typenum::P2::new())` is supported")
                note("`x.powi(typenum::P2::new())` is `x * x`")
                return "%s * %s" % (atom(t), atom(t)), "num"
            if e.args:
                self.err(e, ".%s with arguments" % n)
            if n == "abs":
                return "absv " + atom(t), "num"
            return "%s %s" % (self.need_amb(e, "sqrt"), atom(t)), "num"
        self.err(e, "method `.%s()` is outside the subset" % n)

    def expect_args(self, e, n):
        if len(e.args) != n or e.tf is not None:
            self.err(e, "`.%s` must be called with %d argument(s)" % (e.name, n))

    def obj_method(self, e, base):
        key = (base.view, e.name)
        n = e.name
        if key in METHODS:
            return self.gen_call(e, self.table[METHODS[key]], base, e.args)
        if base.view == "PathTpc" and n in ("grades", "curves", "link_points"):
            self.expect_args(e, 0)
            return self.obj_arg(e, base) + "." + camel(n), ("lps" if n == "link_points" else "prcs")
        if key == ("PathTpc", "offset_end"):
            self.expect_args(e, 0)
            return self.need_amb(e, "offsetEnd"), "num"
        if base.view == "PathResStrap":
            idx = self.obj_arg(e, base)
            if n == "calc_res":
                self.expect_args(e, 3)
                pts, pk = self.expr(e.args[0])
                self.want(e.args[0], pk, "prcs", "path_res_coeffs")
                st = self.resolve(e.args[1])
                if st is None or st.view != "TrainState":
                    self.err(e, "second argument of calc_res must be the train state")
                d, dk = self.expr(e.args[2])
                self.want(e.args[2], dk, "dir", "dir")
                v = self.fresh("f")
                self.write_back(e, base, "strapCalcRes %s %s %s %s" % (atom(pts), idx, self.obj_arg(e, st), atom(d)), v)
                return v, "tried:num"
            if n in ("res_coeff_front", "res_coeff_back", "res_net_front"):
                self.expect_args(e, 2 if n == "res_net_front" else 1)
                pts, pk = self.expr(e.args[0])
                self.want(e.args[0], pk, "prcs", "path_res_coeffs")
                side = "back" if n == "res_coeff_back" else "front"
                p = self.hoist(e, "Rs.getP %s %s.%s" % (atom(pts), idx, side), "p")
                if n != "res_net_front":
                    return p + ".coeff", "num"
                st = self.resolve(e.args[1])
                if st is None or st.view != "TrainState":
                    self.err(e, "second argument of res_net_front must be the train state")
                return "Tpc.prcVal %s %s.r.offset" % (p, self.obj_arg(e, st)), "num"
        if base.view == "Consist":
            if n == "force_max":
                self.expect_args(e, 0)
                note("`self.loco_con.force_max()?` is the value parameter forceMaxCon (its Err case is outside these kernels)")
                return self.need_amb(e, "forceMaxCon"), "ambres"
            if n == "set_cat_power_limit":
                return "", "ignored"
            if n in ("set_pwr_aux", "set_cur_pwr_max_out", "solve_energy_consumption"):
                con = self.obj_arg(e, base)
                kc = self.need_amb(e, "kc")
                if n == "set_pwr_aux":
                    self.expect_args(e, 1)
                    a, ak = self.expr(e.args[0])
                    self.want(e.args[0], ak, "optbool", "engine_on")
                    self.write_back(e, base, "pure (CS.consistSetAux %s %s)" % (con, atom(a)))
                elif n == "set_cur_pwr_max_out":
                    self.expect_args(e, 2)
                    if not (e.args[0].kind == "path" and e.args[0].segs == ["None"]):
                        self.err(e, "set_cur_pwr_max_out must be called with pwr_max_out = None (the modelled case)")
                    d, dk = self.expr(e.args[1])
                    self.want(e.args[1], dk, "num", "dt")
                    self.write_back(e, base, "CS.consistSetCurMax %s %s %s" % (kc, con, atom(d)))
                else:
                    self.expect_args(e, 3)
                    p, pk = self.expr(e.args[0])
                    d, dk = self.expr(e.args[1])
                    a, ak = self.expr(e.args[2])
                    self.want(e.args[0], pk, "num", "pwr_out_req")
                    self.want(e.args[1], dk, "num", "dt")
                    self.want(e.args[2], ak, "optbool", "engine_on")
                    self.write_back(e, base, "CS.consistSolve %s %s %s %s %s" % (kc, con, atom(p), atom(d), atom(a)))
                return "()", "tried:unit"
        self.err(e, "method call `%s.%s(..)` is outside the subset" % (base.view, n))

    def gen_call(self, e, callee, base, args):
        """call of a translated function"""
        ci = Iface(callee)
        a = [self.need_amb(e, x) for x in ci.amb]
        outs = []                       # Refs written by the callee, in its result order
        for var, view, mut, src in ci.objs:
            if src[0] == "self":
                r = base
                if r is not None and r.view == "TrainRes" and view == "ResStrap":
                    note("`TrainRes::update_res` is `method::Strap::update_res` (the Strap variant is the hand model's scope)")
                elif r is None or r.view != view:
                    self.err(e, "receiver of %s is not a %s" % (callee["fn"], view))
            else:
                if base is None or base.comp != "":
                    self.err(e, "%s must be called on `self`" % callee["fn"])
                r = self.resolve_comp(e, src[1])
            if view.startswith("value:"):
                a.append(r)
                continue
            a.append(self.obj_arg(e, r))
            if mut:
                outs.append(r)
        if ci.trace:
            if self.cfg["trace"] is None:
                self.err(e, "call of %s in a function without trace parameters (translator's table)" % callee["fn"])
            a += TRACE_BINDERS
        if len(args) != len(ci.params):
            self.err(e, "%s called with %d arguments, the translator's table lists %d" % (callee["fn"], len(args), len(ci.params)))
        for x, p in zip(args, ci.params):
            if p == "idx":
                if rust_text(x) != self.cfg["trace"]:
                    self.err(x, "speed trace index `%s` is not `%s`" % (rust_text(x), self.cfg["trace"]))
            elif p.startswith("view:") or p.startswith("mview:"):
                r = self.resolve(x)
                if r is None or r.view != p.split(":")[1]:
                    self.err(x, "argument of %s is not a %s" % (callee["fn"], p.split(":")[1]))
                if p.startswith("mview:"):
                    if not (x.kind == "ref" and x.mut) and not (x.kind == "path"):
                        self.err(x, "argument of %s must be a mutable reference" % callee["fn"])
                    outs.append(r)
                a.append(self.obj_arg(x, r))
            else:
                t, kd = self.expr(x)
                self.want(x, kd, p, "argument of " + callee["fn"])
                a.append(atom(t))
        text = " ".join([callee["lean"]] + a)
        if ci.ret != "unit":
            return text, ci.ret
        if not self.monadic or not self.can_hoist:
            self.err(e, "a call that writes objects, in a conditionally evaluated position or a value function")
        pats, post = [], []
        for r in outs:
            if r.var is None or not r.mut or r.var not in self.env:
                self.err(e, "%s writes an object this function may not write (translator's table)" % callee["fn"])
            if r.path:
                n = self.fresh("o")
                pats.append(n)
                post.append((r, n))
            else:
                pats.append(r.var)
        self.emit("let %s ← %s" % (pats[0] if len(pats) == 1 else "(" + ", ".join(pats) + ")", text))
        for r, n in post:
            self.emit_update(r.var, r.path, n)
        return "()", "tried:unit"

    def resolve_comp(self, node, path):
        """the component `self.<path>` of the composite receiver, as seen from this function"""
        e = N("path", node.line, segs=["self"])
        for s in path.split("."):
            e = N("field", node.line, recv=e, name=s)
        r = self.resolve(e)
        if r is not None:
            if r.var is None:
                self.err(node, "`self.%s` is not available to this function (translator's table)" % path)
            return r
        t, kd = self.field(e)                 # a value component
        return t

    # ---- value `if`
    def block_effects(self, b):
        """does a block of an `if` contain anything but pure `let`s and a value"""
        for s in b.stmts:
            if s.kind == "let":
                if self.expr_effects(s.e):
                    return True
            else:
                return True
        return b.tail is not None and self.expr_effects(b.tail)

    def expr_effects(self, e):
        if e.kind == "if":
            return self.block_effects(e.then) or (e.els is not None and self.block_effects(e.els))
        return False

    def if_value(self, e):
        if e.els is None:
            self.err(e, "`if` used as a value without `else`")
        if not (self.block_effects(e.then) or self.block_effects(e.els)):
            # pure: (let x := e; … value)
            c = self.logic(e.cond, "prop")
            saved_h = self.can_hoist
            self.can_hoist = False
            vals = []
            for b in (e.then, e.els):
                if b.tail is None:
                    self.err(b, "a branch of an `if` expression must end in a value")
                saved = (dict(self.locals), self.lines, self.indent)
                self.lines = []
                for s in b.stmts:
                    self.stmt(s)
                lets = [l.strip() for l in self.lines]
                t, kd = self.expr(b.tail)
                self.locals, self.lines, self.indent = saved
                vals.append((("(" + "; ".join(lets + [t]) + ")") if lets else t, kd))
            self.can_hoist = saved_h
            if vals[0][1] != vals[1][1]:
                self.err(e, "branches of `if` have kinds %s / %s" % (vals[0][1], vals[1][1]))
            return "if %s then %s else %s" % (c, vals[0][0], vals[1][0]), vals[0][1]
        # with effects: each branch is a `do` block returning the written objects and the value
        if not self.monadic or not self.can_hoist:
            self.err(e, "an `if` expression whose branches have effects, in a conditionally evaluated position")
        c = self.logic(e.cond, "prop")
        v = self.fresh("v")
        ind = self.indent
        self.emit("let %s ← (if %s then do" % (self.env_pat(v), c))
        kinds = []
        for i, b in enumerate((e.then, e.els)):
            if i == 1:
                self.indent = ind
                self.emit("  else do")
            self.indent = ind + 4
            if b.tail is None:
                self.err(b, "a branch of an `if` expression must end in a value")
            saved = dict(self.locals)
            for s in b.stmts:
                self.stmt(s)
            t, kd = self.expr(b.tail)
            kinds.append(kd)
            if kd not in KIND_LEAN:
                self.err(b.tail, "value of kind %s at the end of a branch with effects" % kd)
            self.emit("pure %s" % self.env_pat("(%s : %s)" % (t, KIND_LEAN[kd])))   # typed: `0` must not default to Nat
            self.locals = saved
        self.indent = ind
        self.lines[-1] += ")"
        if kinds[0] != kinds[1]:
            self.err(e, "branches of `if` have kinds %s / %s" % (kinds[0], kinds[1]))
        return v, kinds[0]

    # ---- statements
    def mutates(self, b):
        for s in b.stmts:
            if s.kind in ("assign", "exprstmt", "lettuple"):
                return True
            if s.kind == "let" and self.expr_effects(s.e):
                return True
            if s.kind == "ifstmt" and (self.mutates(s.node.then) or (s.node.els and self.mutates(s.node.els))):
                return True
        if b.tail is not None and b.tail.kind == "if":
            t = b.tail
            if self.mutates(t.then) or (t.els and self.mutates(t.els)):
                return True
        return False

    def stmt(self, s):
        k = s.kind
        if k == "let":
            if getattr(s, "ty", None) is not None and TYPE_KIND.get(s.ty) != "num":
                self.err(s, "type ascription `%s` on `let` is outside the subset" % s.ty)
            t, kd = self.expr(s.e)
            if kd not in ("num", "bool", "opt"):
                self.err(s, "let-bound value of kind %s is outside the subset" % kd)
            n = self.local_name(s, s.name)
            self.emit("let %s : %s := %s" % (n, KIND_LEAN[kd], t))      # typed: a literal must not default to Nat
            self.locals[s.name] = (n, kd)
            return
        if k == "lettuple":
            e = s.e
            base = self.resolve(e.recv) if e.kind == "method" else None
            if not (base is not None and base.view == "BrakingPoints" and e.name == "calc_speeds" and len(e.args) == 3
                    and len(s.names) == 2):
                self.err(s, "only `let (a, b) = <braking_points>.calc_speeds(x, y, z);` may bind a tuple")
            a = []
            for x in e.args:
                t, kd = self.expr(x)
                self.want(x, kd, "num", "argument of calc_speeds")
                a.append(atom(t))
            names = [self.local_name(s, n) for n in s.names]
            self.write_back(s, base, "Tr.calcSpeeds %s %s" % (self.obj_arg(s, base), " ".join(a)), ", ".join(names))
            for r, n in zip(s.names, names):
                self.locals[r] = (n, "num")
            return
        if k == "ensure":
            tags = self.cfg["tags"]
            if self.ensures >= len(tags):
                self.err(s, "ensure! number %d of %s, but the tag table of the translator lists only %d"
                         % (self.ensures + 1, self.fn.name, len(tags)))
            if not self.monadic:
                self.err(s, "ensure! in a function that does not return Result")
            c = self.logic(s.cond, "bool")
            self.emit('ensure (%s) "%s"' % (c, tags[self.ensures]))
            self.ensures += 1
            return
        if k == "bail":
            tags = self.cfg["bails"]
            if self.bails >= len(tags):
                self.err(s, "bail! number %d of %s, but the tag table of the translator lists only %d"
                         % (self.bails + 1, self.fn.name, len(tags)))
            if not self.monadic:
                self.err(s, "bail! in a function that does not return Result")
            self.emit('bail "%s"' % tags[self.bails])
            self.bails += 1
            return
        if k == "assign":
            if not self.monadic:
                self.err(s, "assignment in a value-returning function")
            var, path, fk = self.place(s.place)
            t, kd = self.expr(s.rhs)
            if s.op != "=":
                self.want(s, fk, "num", "target of " + s.op)
                self.want(s, kd, "num", "right-hand side of " + s.op)
                t = "%s %s %s" % (".".join([var] + path), s.op[0], atom(t))
            elif kd != fk:
                self.err(s, "assignment of kind %s to field %s of kind %s" % (kd, path[-1], fk))
            self.emit_update(var, path, t)
            return
        if k == "exprstmt":
            if s.e.kind == "try":
                t, kd = self.expr(s.e.e)
                if kd == "tried:unit":
                    return
                self.err(s, "expression statement outside the subset (only `<translated or shared callee>(..)?;`)")
            t, kd = self.expr(s.e)
            if kd == "ignored" and s.e.kind == "method":
                note("`%s.%s(..);` is skipped" % (rust_text(s.e.recv), s.e.name))
                return
            self.err(s, "expression statement outside the subset (only `<translated or shared callee>(..)?;`)")
        if k == "ifstmt":
            self.if_stmt(s.node)
            return
        if k == "while":
            self.err(s, "`while` is outside the subset")
        self.err(s, "statement form `%s` outside the subset" % k)

    def scoped_block(self, b, mutating):
        saved = dict(self.locals)
        for s in b.stmts:
            self.stmt(s)
        if b.tail is not None:
            if b.tail.kind == "if":
                self.if_stmt(b.tail)
            else:
                self.err(b.tail, "a value at the end of a statement block is outside the subset")
        last = b.stmts[-1].kind if (b.stmts and b.tail is None) else None
        if mutating:
            if last != "bail":
                self.emit("pure %s" % self.env_pat())
        elif last not in ("ensure", "bail"):
            self.emit("pure ()")              # a branch must end in an action of type `Res Unit`
        self.locals = saved

    def if_stmt(self, e):
        c = self.logic(e.cond, "prop")
        mut = self.mutates(e.then) or (e.els is not None and self.mutates(e.els))
        ind = self.indent
        if not mut:
            self.emit("if %s then" % c)
            self.indent = ind + 2
            self.scoped_block(e.then, False)
            self.indent = ind
            if e.els is not None:
                self.emit("else")
                self.indent = ind + 2
                self.scoped_block(e.els, False)
                self.indent = ind
        else:
            if not self.can_hoist:
                self.err(e, "an `if` statement with effects in a conditionally evaluated position")
            self.emit("let %s ← (if %s then do" % (self.env_pat(), c))
            self.indent = ind + 4
            self.scoped_block(e.then, True)
            self.indent = ind
            if e.els is not None:
                self.emit("  else do")
                self.indent = ind + 4
                self.scoped_block(e.els, True)
                self.indent = ind
                self.lines[-1] += ")"
            else:
                self.emit("  else pure %s)" % self.env_pat())


def translate(cfg, root, files, structs, uc, table):
    rel = cfg["file"]
    if rel not in files:
        files[rel] = SourceFile(root, rel)
    sf = files[rel]
    fn = sf.find(cfg["impl"], cfg["fn"])
    p = TParser(fn)
    name, recv, params, ret = p.signature()
    body = p.block()
    if p.i != fn.hi + 1:
        p.err("trailing tokens after the function body")
    cx = TrCtx(cfg, fn, sf, structs, uc, table)
    ifc = cx.iface
    where = "%s:%d: " % (rel, fn.line_lo)
    if (recv is not None) != (cfg["impl"] is not None):
        raise TErr(where + "receiver of %s does not match the translator's table" % name)
    # ---- the receiver
    if cfg["comps"]:
        cx.objs["self"] = Ref(None, [], cfg["impl"], False, comp="")
        for path, var, mut in cfg["comps"]:
            cx.comps[path] = (var, mut, comp_view(cfg["impl"], path))
            if mut:
                if recv != "mut":
                    raise TErr(where + "%s takes `&self` but the translator's table lets it write self.%s" % (name, path))
                cx.env.append(var)
    elif cfg["self_view"]:
        has_var = VIEWS[cfg["self_view"]]["lean"] is not None
        mut = cfg["ret"] == "unit" and has_var
        if mut and recv != "mut":
            raise TErr(where + "%s takes `&self` but the translator's table lets it write self" % name)
        cx.objs["self"] = Ref("self" if has_var else None, [], cfg["self_view"], mut)
        if mut:
            cx.env.append("self")
    # ---- parameters
    got = []
    names = []
    for pn, ty, line in params:
        if ty not in TYPE_KIND:
            raise TErr("%s:%d: parameter `%s: %s`: type outside the subset" % (rel, line, pn, ty))
        kd = TYPE_KIND[ty]
        got.append(kd)
        ln = camel(pn)
        names.append(ln)
        if kd == "idx":
            if cfg["trace"] != pn:
                raise TErr("%s:%d: index parameter `%s` is not the trace index of the translator's table" % (rel, line, pn))
            continue
        if ln in RESERVED or ln in cx.env:
            raise TErr("%s:%d: parameter `%s` maps to the reserved Lean identifier %r" % (rel, line, pn, ln))
        if kd.startswith("view:") or kd.startswith("mview:"):
            m = kd.startswith("mview:")
            if m and cfg["ret"] != "unit":
                raise TErr("%s:%d: `&mut` parameter of a value-returning function" % (rel, line))
            cx.objs[pn] = Ref(ln, [], kd.split(":")[1], m)
            if m:
                cx.env.append(ln)
        else:
            cx.locals[pn] = (ln, kd)
    if got != cfg["params"]:
        raise TErr(where + "parameters of %s have kinds %s, the translator's table (and the driver ops) expect %s"
                   % (name, got, cfg["params"]))
    part = cfg["part"]
    if (RET_KIND.get(ret) != cfg["ret"]) and part is None:
        raise TErr(where + "%s returns `%s`, the translator's table expects kind %s" % (name, ret, cfg["ret"]))
    binders = ifc.binders(names)
    head = "def %s %s : %s :=" % (cfg["lean"], " ".join(binders), ifc.ret_lean())
    stmts, tail = body.stmts, body.tail

    def is_ok_unit(t):
        return t is not None and t.kind == "call" and t.path == ["Ok"] and len(t.args) == 1 and t.args[0].kind == "unit"
    # ---- a part of the function only
    if part is not None and part[0] == "after-call":
        hits = [i for i, s in enumerate(stmts) if calls_method(s, part[1])]
        if len(hits) != 1:
            raise TErr(where + "%s: %d top-level statements call `.%s(`, expected exactly 1" % (name, len(hits), part[1]))
        stmts = stmts[hits[0] + 1:]
    if part is not None and part[0] == "while-cond":
        ws = [s for s in stmts if s.kind == "while"]
        if len(ws) != 1:
            raise TErr(where + "%s: %d top-level `while` statements, expected exactly 1" % (name, len(ws)))
        cx.monadic = False
        t = cx.logic(ws[0].cond, "bool")
        cx.emit(t)
        return fn, head, cx.lines
    if part is not None and part[0] == "loop-ensure":
        ws = [s for s in stmts if s.kind == "while"]
        if len(ws) != 1:
            raise TErr(where + "%s: %d top-level `while` statements, expected exactly 1" % (name, len(ws)))
        lb = p.loop_body(ws[0])
        if lb.tail is not None:
            raise TErr("%s:%d: the body of the loop of %s ends in a value" % (rel, lb.tail.line, name))

        def is_call(s):
            e = s.e.e if (s.kind == "exprstmt" and s.e.kind == "try") else None
            return (e is not None and e.kind == "method" and e.name == part[1] and not e.args and e.tf is None
                    and e.recv.kind == "path" and e.recv.segs == ["self"])
        calls = [i for i, s in enumerate(lb.stmts) if is_call(s)]
        if len(calls) != 1 or sum(1 for s in lb.stmts if calls_method(s, part[1])) != 1:
            raise TErr("%s:%d: the body of the loop of %s must contain the statement `self.%s()?;` exactly once and no "
                       "other call of `.%s(`" % (rel, ws[0].body_line, name, part[1], part[1]))
        before, after = lb.stmts[:calls[0]], lb.stmts[calls[0] + 1:]
        if len(after) != 1 or after[0].kind != "ensure":
            raise TErr("%s:%d: after `self.%s()?;` the body of the loop of %s must consist of exactly one ensure!, found %s"
                       % (rel, lb.stmts[calls[0]].line, part[1], name, [s.kind for s in after] or "nothing"))
        pre, post = {}, {}
        for path, var, mut in cfg["comps"]:
            if mut:
                raise TErr(where + "translator table: the part `loop-ensure` reads its components only")
            (post if path in pre else pre)[path] = (var, False, comp_view(cfg["impl"], path))
        if set(pre) != set(post):
            raise TErr(where + "translator table: the part `loop-ensure` lists every component twice (before / after the call)")
        cx.monadic = False
        cx.can_hoist = False
        cx.comps = pre                        # the `let`s in front of the call read the objects as they are BEFORE it
        for s in before:
            if s.kind != "let":
                raise TErr("%s:%d: only `let` statements may precede `self.%s()?;` in the body of the loop of %s (found `%s`)"
                           % (rel, s.line, part[1], name, s.kind))
            cx.stmt(s)
        cx.comps = post                       # the ensure! reads them as they are AFTER it
        t = cx.logic(after[0].cond, "bool", True)
        cx.emit("!" + ("(" + t + ")" if t.startswith("!") else t))          # TRUE iff the ensure! fails
        return fn, head, cx.lines
    if cfg["ret"] == "unit":
        for s in stmts:
            cx.stmt(s)
        if not is_ok_unit(tail):
            raise TErr("%s:%d: %s must end with `Ok(())`" % (rel, fn.line_hi, name))
        cx.emit("pure %s" % cx.env_pat())
        head += " do"
    elif cfg["ret"].startswith("res:"):
        for s in stmts:
            cx.stmt(s)
        if tail is None:
            raise TErr("%s:%d: %s has no tail expression" % (rel, fn.line_hi, name))
        want = cfg["ret"][4:]
        if tail.kind == "call" and tail.path == ["Ok"] and len(tail.args) == 1:
            t, kd = cx.expr(tail.args[0])
            if kd != want:
                raise TErr("%s:%d: tail `Ok(..)` of kind %s, declared %s" % (rel, fn.line_hi, kd, want))
            cx.emit("pure %s" % atom(t))
        else:
            t, kd = cx.expr(tail)
            if kd != cfg["ret"]:
                raise TErr("%s:%d: tail expression of kind %s, declared %s" % (rel, fn.line_hi, kd, cfg["ret"]))
            cx.emit(t)
        head += " do"
    else:
        cx.monadic = False
        for s in stmts:
            if s.kind != "let":
                raise TErr("%s:%d: a value-returning function may contain only `let` statements" % (rel, s.line))
            cx.stmt(s)
        if tail is None:
            raise TErr("%s:%d: %s has no tail expression" % (rel, fn.line_hi, name))
        t, kd = cx.expr(tail)
        if kd != cfg["ret"]:
            raise TErr("%s:%d: tail expression of kind %s, declared %s" % (rel, fn.line_hi, kd, cfg["ret"]))
        cx.emit(t)
    if cx.ensures != len(cfg["tags"]):
        raise TErr(where + "%s has %d ensure!, the tag table of the translator lists %d (%s)"
                   % (name, cx.ensures, len(cfg["tags"]), ", ".join(cfg["tags"])))
    if cx.bails != len(cfg["bails"]):
        raise TErr(where + "%s has %d bail!, the tag table of the translator lists %d (%s)"
                   % (name, cx.bails, len(cfg["bails"]), ", ".join(cfg["bails"])))
    return fn, head, cx.lines


def stub(cfg, msg):
    """a definition with the table's signature that always panics (value-returning functions: a fixed wrong
    value): the driver still links, the equality proof fails"""
    ifc = Iface(cfg)
    b = " ".join(ifc.binders(None))
    r = ifc.ret_lean()
    if r.startswith("Res"):
        return ["def %s %s : %s := .panic %s" % (cfg["lean"], b, r, lean_str("translator: " + msg))]
    return ["-- translator: " + msg.replace("\n", " "),
            "def %s %s : %s := %s" % (cfg["lean"], b, r, "false" if cfg["ret"] == "bool" else "0")]


HEADER = '''import Altrios.Train
/-
  GENERATED by /verif/scan/translate_train_kernels.py from the Rust sources of altrios-core — DO NOT EDIT.
  Regenerated on every check; `Proofs/TrainKernels.lean` proves each definition equal to the hand-written
  model (`Altrios/Resist.lean`, `Altrios/Train.lean`, `Altrios/Num.lean`).

  Reading rules (the translator's trusted base; those of Generated/Kernels.lean, and):
    * a function returns the tuple of the objects it may write (`&mut self` / `&mut` parameters / the components
      of a simulation struct named in the translator's table), an assignment is a nested record update that
      shadows the object; statement order is the order of the Rust text; `e?` is a bind placed just before the
      statement it occurs in; `ensure!(c, …)` / `bail!(…)` are `ensure c tag` / `bail tag`, tags by ordinal from the
      translator's table (messages are never read); `.with_context(…)` is the identity on a `Result` and
      `None ↦ Err` on an `Option` (`ctxOpt`); an `if` whose branches write is `let objs ← (if c then do … else do …)`.
    * `TrainState` is `Tr.TrainState` (`r` = the fields of `Rs.ResState`, `k` = those of `Tr.Kin`; `i` is not
      modelled); `FricBrake{,.state}` is `Tr.FricBrake`; `method::Strap` is `Rs.ResStrap` (the four `Basic` kinds
      are its scalar fields, `grade` / `curve` its `StrapIdx`); `loco_con.state` is `CS.ConsistState`.
    * `speed_trace.time[i]`, `speed[i]`, `time[i-1]`, `speed[i-1]` (i = `self.state.i`) are the parameters
      tCur vCur tPrev vPrev (that the samples exist is outside these kernels).
    * uom quantities are their SI base-unit values; `uc::X * e` is `e` for the unit constants whose value in uc.rs
      is 1.0; `uc::ACC_GRAV` = g, `uc::rho_air()` = rho, `uc::MPH * 0.1` = c.mph01, `1000.0 * uc::FT` = ft1000 (values
      checked against uc.rs and the driver's Float constants); `si::X::ZERO` is 0; `x_uom(&a, &b, e)` is `x(a, b, e)`
      (macro text checked); numeric literals: 0, 1, 365.25 (c36525) and the named `Tr.TrConsts` (%(consts)s).
    * statements `#[cfg(feature = "logging")] log::…!(…);` are skipped.
    * `[while-cond]` is the condition of the function's only `while`; `[loop-ensure m]` is the check made in that loop after
      every `self.m()?`: the loop body must be `let`s, the one statement `self.m()?;`, one `ensure!(c, …)`, nothing else;
      the definition is `!(c)` (TRUE iff the ensure! fails) under the `let`s, where the `let`s read the state BEFORE the
      call (`st0`) and `c` reads the state AFTER it (`st`).
    * SHARED CALLEES (hand-modelled functions used by both sides of every equality):
%(callees)s
%(assume)s-/
set_option linter.unusedVariables false
namespace Altrios.GenTr
open Altrios

/-- `Option::with_context(..)`: `None` becomes an `Err` -/
def ctxOpt {β : Type} : Option β → Res β
  | some v => .ok v
  | none => .err "context-none"

/-- `bail!(..)` -/
def bail {β : Type} (tag : String) : Res β := .err tag

section
%(var)s
'''


def main():
    args = sys.argv[1:]
    lean_root = os.path.join(os.path.dirname(os.path.dirname(os.path.abspath(__file__))), "lean")
    if "--lean-root" in args:
        i = args.index("--lean-root")
        lean_root = args[i + 1]
        del args[i:i + 2]
    if len(args) != 2:
        print(__doc__)
        sys.exit(2)
    root, out = args
    errors = []
    chunks = []
    files = {}
    table = {f["lean"]: f for f in FUNCS if "lean" in f}
    try:
        structs, var_line = read_structs(lean_root)
        uc = read_uc(root)
        check_uom_macro(root)
        check_constants(root, lean_root, structs, uc)
    except (TErr, OSError) as e:
        print("translate_train_kernels: FATAL " + str(e))
        structs, var_line, uc = None, None, None
        errors.append(str(e))
    n_ok = n_fn = 0
    for cfg in FUNCS:
        if "fixed" in cfg:
            chunks.append((cfg, None, None, None))
            continue
        n_fn += 1
        what = (cfg["impl"] + "::" if cfg["impl"] else "") + cfg["fn"]
        if structs is None:
            chunks.append((cfg, None, None, stub(cfg, errors[0])))
            continue
        try:
            fn, head, lines = translate(cfg, root, files, structs, uc, table)
            chunks.append((cfg, fn, head, lines))
            n_ok += 1
        except TErr as e:
            msg = str(e)
            errors.append("%s: %s" % (what, msg))
            print("translate_train_kernels: ERROR %s: %s" % (what, msg))
            chunks.append((cfg, None, None, stub(cfg, msg)))
    if var_line is None:
        var_line = ("variable {α : Type} [Add α] [Sub α] [Mul α] [Div α] [Neg α] [LT α] [LE α]\n"
                    "  [DecidableLT α] [DecidableLE α] [OfNat α 0] [OfNat α 1]")
    txt = HEADER % dict(
        consts=", ".join("%s = %r" % kv for kv in CONST_FIELDS.items()),
        callees="".join("        - %s\n" % c for c in CALLEES).rstrip("\n"),
        assume="".join("    * ASSUMPTION: %s\n" % a for a in ASSUMPTIONS),
        var=var_line)
    for cfg, fn, head, lines in chunks:
        if "fixed" in cfg:
            txt += "\n" + FIXED[cfg["fixed"]]
            continue
        what = (cfg["impl"] + "::" if cfg["impl"] else "") + cfg["fn"]
        if cfg["part"]:
            what += "  [%s]" % " ".join(cfg["part"])
        if fn is not None:
            txt += "\n/-- `%s`   %s:%d-%d   sha256/16 = %s -/\n" % (what, fn.rel, fn.line_lo, fn.line_hi, fn.hash)
            txt += head + "\n" + "\n".join(lines) + "\n"
        else:
            txt += "\n/-- `%s`   %s   NOT TRANSLATED -/\n" % (what, cfg["file"])
            txt += "\n".join(lines) + "\n"
    txt += "\nend\n\n"
    txt += "/-- `false` iff some function was outside the translator's subset (see `translatorErrors`) -/\n"
    txt += "def translatorOk : Bool := %s\n" % ("true" if not errors else "false")
    txt += "def translatorErrors : List String := [%s]\n" % ", ".join(lean_str(e) for e in errors)
    txt += "\nend Altrios.GenTr\n"
    if not os.path.exists(out) or open(out, encoding="utf-8").read() != txt:
        os.makedirs(os.path.dirname(os.path.abspath(out)), exist_ok=True)
        with open(out, "w", encoding="utf-8") as f:
            f.write(txt)
        print("translate_train_kernels: wrote %s" % out)
    else:
        print("translate_train_kernels: %s unchanged" % out)
    print("translate_train_kernels: %d/%d functions translated" % (n_ok, n_fn))
    sys.exit(1 if errors else 0)


if __name__ == "__main__":
    main()
