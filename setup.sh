#!/bin/sh
# Build the framework from files on disk only (offline): the Rust harness against /repo, the Lean
# model driver, and the theorem modules of every claimed property.
set -e
cd "$(dirname "$0")"
export CARGO_NET_OFFLINE=true
(cd harness && cargo build --offline 2>&1 | tail -3)
MODS=$(python3 -c "
import sys; sys.path.insert(0,'.')
from checkcfg import PROPS
print(' '.join(sorted({'Proofs.'+m for p in PROPS.values() for m in p['proof_modules']})))")
(cd lean && python3 gen_registry.py && lake build driver $MODS 2>&1 | tail -5)
echo setup-done
