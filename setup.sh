#!/bin/sh
# Build the framework from files on disk only (offline).
set -e
cd "$(dirname "$0")"
export CARGO_NET_OFFLINE=true
(cd harness && cargo build --offline 2>&1 | tail -3)
(cd lean && lake build 2>&1 | tail -5)
echo setup-done
