#!/bin/sh
# sweep.sh <tier> <seed>... : run every claimed check for each seed; print one line per (property, seed); evidence goes to a scratch dir
cd /verif
TIER=$1; shift
for s in "$@"; do
  for p in $(python3 -c "import sys; sys.path.insert(0,'.'); from checkcfg import PROPS; print(' '.join(sorted(PROPS)))"); do
    out=$(VERIF_SEED=$s VERIF_WORK=/tmp/sweep/work VERIF_EVID=/tmp/sweep/evidence VERIF_REPLAYS=/tmp/sweep/replays ./check $p --tier $TIER 2>&1 | grep -E "^\[C|^VIOLATION" | tr '\n' ' ')
    echo "seed=$s $out"
  done
done
