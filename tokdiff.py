#!/usr/bin/env python3
"""tokdiff.py <workdir> [n]: show, per op kind, the first token-level differences between impl.out and model.out"""
import sys, struct, collections
d=sys.argv[1]; n=int(sys.argv[2]) if len(sys.argv)>2 else 3
ops=open(d+'/ops.txt').read().splitlines(); imp=open(d+'/impl.out').read().splitlines(); mod=open(d+'/model.out').read().splitlines()
def val(t):
    if t.startswith('x') and len(t)==17:
        return struct.unpack('>d',bytes.fromhex(t[1:]))[0]
    return t
seen=collections.Counter(); tot=collections.Counter()
for o,a,b in zip(ops,imp,mod):
    if a==b: continue
    op=o.split()[1]; tot[op]+=1
    if seen[op]>=n: continue
    seen[op]+=1
    ta=a.split(); tb=b.split()
    if len(ta)!=len(tb): print(op, o.split()[0], 'LEN', len(ta), len(tb), ' impl:', ' '.join(ta[:6]), ' model:', ' '.join(tb[:8])); continue
    idx=[i for i,(x,y) in enumerate(zip(ta,tb)) if x!=y]
    print(op, o.split()[0], 'ntok',len(ta),'diff at', idx[:8], [(val(ta[i]),val(tb[i])) for i in idx[:4]])
print(dict(tot))
