#!/usr/bin/env python3
"""seed_store.py <tag> <name> <check_result> <caught_by;...> [strengthening] — store a verified seeded change under /verif/seeded/<name>/"""
import json, os, shutil, sys, re
tag, name, check_result, caught = sys.argv[1:5]
strength = sys.argv[5] if len(sys.argv) > 5 else None
o = f"/tmp/seed/{tag}-out"; d = f"/verif/seeded/{name}"
os.makedirs(d, exist_ok=True)
shutil.copy(f"{o}/patch.diff", d); shutil.copy(f"{o}/seeded_demo.rs", d)
m = json.load(open(f"{o}/meta.json"))
def res(f):
    try:
        t = open(f"{o}/{f}").read()
        return " ; ".join(re.findall(r"^test result.*$", t, re.M)) or t[-300:]
    except Exception as e:
        return str(e)
m["verified_by_main"] = {
    "tests_pass_with_change": "seed_verify.sh: " + res("v_suite.log"),
    "demo": "with change: " + res("v_demo_with.log") + " | reverted: " + res("v_demo_without.log"),
    "check_result": check_result, "caught_by": [c for c in caught.split(";") if c]}
if strength: m["verified_by_main"]["strengthening"] = strength
json.dump(m, open(f"{d}/meta.json", "w"), indent=1)
print("stored", d)
