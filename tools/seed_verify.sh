#!/bin/sh
# seed_verify.sh <tag>  — re-verify a sub-agent's seeded change in its scratch worktree /tmp/seed/<tag>:
# patch applies to a clean tree, suite passes with it, demo fails with it, demo passes without it.
T=$1; W=/tmp/seed/$T; O=/tmp/seed/$T-out
export CARGO_NET_OFFLINE=true
cd $W || exit 2
git checkout -q -- . ; git clean -fdq rust/altrios-core/tests 2>/dev/null
git apply $O/patch.diff || { echo "PATCH-DOES-NOT-APPLY"; exit 2; }
mkdir -p rust/altrios-core/tests; cp $O/seeded_demo.rs rust/altrios-core/tests/seeded_demo.rs
cd rust
cargo test --workspace --no-fail-fast --offline --lib --bins > $O/v_suite.log 2>&1
cargo test --workspace --no-fail-fast --offline --doc >> $O/v_suite.log 2>&1
echo "suite-with-change: $(grep -h '^test result' $O/v_suite.log | tr '\n' ' ')"
cargo test -p altrios-core --offline --test seeded_demo > $O/v_demo_with.log 2>&1; echo "demo-with-change rc=$? $(grep -h '^test result' $O/v_demo_with.log)"
cd $W; git apply -R $O/patch.diff; cd rust
cargo test -p altrios-core --offline --test seeded_demo > $O/v_demo_without.log 2>&1; echo "demo-without-change rc=$? $(grep -h '^test result' $O/v_demo_without.log)"
